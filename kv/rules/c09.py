"""C09 - saving and reloading reproduces any object: tables that must agree (R-E1 ... R-E7)."""
import ast

from ..effects import is_self, self_attr, walk_no_nested
from ..engine import AnalysisError, norm_stmt
from . import cache, common

REPR = "kafe2.fit.representation"
PAIRS = [
    # (writer class, reader class, helper functions whose key accesses belong to the pair)
    ("DataContainerYamlWriter", "DataContainerYamlReader"),
    ("ParametricModelYamlWriter", "ParametricModelYamlReader"),
    ("ModelFunctionYamlWriter", "ModelFunctionYamlReader"),
    ("ConstraintYamlWriter", "ConstraintYamlReader"),
    ("FitYamlWriter", "FitYamlReader"),
    ("ModelFunctionFormatterYamlWriter", "ModelFunctionFormatterYamlReader"),
    ("ParameterFormatterYamlWriter", "ParameterFormatterYamlReader"),
]


def _const_return(f):
    rets = [r.value for r in ast.walk(f.node) if isinstance(r, ast.Return) and r.value is not None]
    if len(rets) == 1:
        return rets[0]
    return None


def written_keys(funcs, docvars=("_yaml_doc", "yaml_doc")):
    out = {}
    for f in funcs:
        for n in ast.walk(f.node):
            if isinstance(n, (ast.Assign, ast.AugAssign)):
                tg = n.targets if isinstance(n, ast.Assign) else [n.target]
                for t in tg:
                    if isinstance(t, ast.Subscript) and isinstance(t.value, ast.Name) and t.value.id in docvars and common.const_str(t.slice):
                        out.setdefault(common.const_str(t.slice), []).append((f, n))
                    # _yaml_section[-1]["matrix"] = ...
                    if isinstance(t, ast.Subscript) and isinstance(t.value, ast.Subscript) and common.const_str(t.slice):
                        out.setdefault("@entry:" + common.const_str(t.slice), []).append((f, n))
            if isinstance(n, ast.Call) and isinstance(n.func, ast.Name) and n.func.id == "dict" and n.keywords:
                par = common.parents_of(f.node).get(id(n))
                if isinstance(par, ast.Call) and isinstance(par.func, ast.Attribute) and par.func.attr == "append":
                    for k in n.keywords:
                        if k.arg:
                            out.setdefault("@entry:" + k.arg, []).append((f, n))
            if isinstance(n, ast.Call) and isinstance(n.func, ast.Attribute) and n.func.attr == "setdefault" and isinstance(n.func.value, ast.Name) and n.func.value.id in docvars:
                pass
    return out


def _table_strings(f, name, _depth=0):
    """string constants in the values of the module-level literal table (dict / tuple of rows) from which the local `name` is taken in f (`a, b = TABLE[key]`,
    `for a, b in TABLE`): the keys a table-driven reader may ask for"""
    out = set()
    mod = getattr(f.module, "tree", None)
    if mod is None:
        return out
    tables = {t.id: st.value for st in mod.body if isinstance(st, ast.Assign) and isinstance(st.value, (ast.Dict, ast.Tuple, ast.List)) for t in st.targets if isinstance(t, ast.Name)}
    for n in ast.walk(f.node):
        src, tgt = None, None
        if isinstance(n, ast.Assign):
            src, tgt = n.value, n.targets[0]
        elif isinstance(n, ast.For):
            src, tgt = n.iter, n.target
        if src is None or not any(isinstance(x, ast.Name) and x.id == name for x in ast.walk(tgt)):
            continue
        for x in ast.walk(src):
            if isinstance(x, ast.Name) and x.id in tables:
                lit = tables[x.id]
                vals = lit.values if isinstance(lit, ast.Dict) else lit.elts
                out |= {c.value for v in vals for c in ast.walk(v) if isinstance(c, ast.Constant) and isinstance(c.value, str)}
            elif isinstance(x, ast.Name) and x.id != name and _depth < 2:
                out |= _table_strings(f, x.id, _depth + 1)   # (the row was taken into a local first: `row = TABLE.get(k)`; `a, b = row`)
    return out


def _key_list_strings(f, key):
    """the local `key` is the target of a loop / comprehension over a local list: every string the list is given anywhere in f (`L = [..]`, `L += [..]`,
    `L.append('k')`, `L.extend([..])`, `L.insert(i, 'k')`) is a key the reader may ask for"""
    lists = set()
    for n in ast.walk(f.node):
        gens = [(n.target, n.iter)] if isinstance(n, ast.For) else [(g.target, g.iter) for g in getattr(n, "generators", [])]
        for tgt, it in gens:
            if any(isinstance(x, ast.Name) and x.id == key for x in ast.walk(tgt)):
                lists |= {x.id for x in ast.walk(it) if isinstance(x, ast.Name)}
    out = set()

    def strings(e):
        return {c.value for c in ast.walk(e) if isinstance(c, ast.Constant) and isinstance(c.value, str)}
    for n in ast.walk(f.node):
        if isinstance(n, (ast.Assign, ast.AugAssign, ast.AnnAssign)) and n.value is not None:
            tgts = n.targets if isinstance(n, ast.Assign) else [n.target]
            if any(isinstance(t, ast.Name) and t.id in lists for t in tgts) and not any(isinstance(x, ast.Call) for x in ast.walk(n.value)):
                out |= strings(n.value)
        elif isinstance(n, ast.Call) and isinstance(n.func, ast.Attribute) and n.func.attr in ("append", "extend", "insert") and isinstance(n.func.value, ast.Name) \
                and n.func.value.id in lists and n.args:
            out |= strings(n.args[-1])
    return out


def consumed_keys(funcs):
    out = set()
    for f in funcs:
        for n in ast.walk(f.node):
            if isinstance(n, ast.Call) and isinstance(n.func, ast.Attribute) and n.func.attr in ("pop", "get") and n.args and common.const_str(n.args[0]):
                out.add(common.const_str(n.args[0]))
            elif isinstance(n, ast.Call) and isinstance(n.func, ast.Attribute) and n.func.attr in ("pop", "get") and n.args and isinstance(n.args[0], ast.Name):
                out |= _table_strings(f, n.args[0].id)   # (a key taken from a literal table of the module)
                out |= _key_list_strings(f, n.args[0].id)   # (a key that ranges over a local list of key names)
            if isinstance(n, ast.Subscript) and isinstance(n.ctx, ast.Load) and common.const_str(n.slice):
                out.add(common.const_str(n.slice))
            if isinstance(n, ast.Compare) and len(n.ops) == 1 and isinstance(n.ops[0], (ast.In, ast.NotIn)) and common.const_str(n.left):
                out.add(common.const_str(n.left))
    return out


def run(eng, R):
    p = eng.p
    R.rule("E1", "every class offering to_file/from_file answers (as classmethods) an object type name for which a reader and a writer are registered; "
                 "type-name tables of each representer family are mutually inverse and cover the family's concrete classes", 14)
    R.rule("E2", "per representer pair: every key the writer writes is consumed by the reader (else every reload fails on 'unknown keywords'), every required key is written", 30)
    R.rule("E3", "within one writer no two distinct keys are assigned from structurally identical expressions (copy-paste)", 5)
    R.rule("E4", "values stored flag-dependently (relative / matrix type) are written through the accessor selected by that flag", 5)
    R.rule("E5", "every per-source state the total depends on (object, axis, enabled) is written and restored; both 'load results' sites apply the stored parameter values", 5)
    R.rule("E6", "writing to an existing path truncates the (append-mode) file before the first write", 2)
    R.rule("E7", "the shorthand expanders of the three error sections accept the same scalar types", 3)
    R.rule("E8", "state installed behind a fit's back by the reader is followed by the fit's own invalidation / wiring", 2)

    # ---------------------------------------------------------------- E1
    with R.guard("E1"):
        registered = {}
        for m in p.modules.values():
            if not m.name.startswith(REPR):
                continue
            for st in m.tree.body:
                if isinstance(st, ast.Expr) and isinstance(st.value, ast.Call) and isinstance(st.value.func, ast.Attribute) and st.value.func.attr == "_register_class":
                    c = p.resolve_expr_to_class(m, st.value.func.value)
                    if c is None:
                        raise AnalysisError("cannot resolve registered representer %s" % ast.unparse(st.value.func.value))
                    try:
                        name = c.const_value("BASE_OBJECT_TYPE_NAME")
                        role = c.const_value("DREPR_ROLE_NAME")
                        flavor = c.const_value("DREPR_FLAVOR_NAME")
                    except KeyError:
                        raise AnalysisError("representer %s lacks type/role/flavor constants" % c.name)
                    registered.setdefault(name, {}).setdefault(role, set()).add(flavor)
        R.info["registered representations"] = {k: sorted(v) for k, v in registered.items()}
        fio = p.find_class("FileIOMixin")
        owners = [c for c in p.all_classes() if ("_get_object_type_name" in c.methods) and c is not fio]
        for c in sorted(owners, key=lambda k: k.name):
            f = c.methods["_get_object_type_name"]
            g = c.methods.get("_get_base_class")
            is_cm = f.kind == "class" and (g is None or g.kind == "class")
            R.ob("E1", "%s:classmethods" % c.name, is_cm, (f.file, f.lineno),
                 "%s._get_object_type_name/_get_base_class are not classmethods although FileIOMixin.from_file calls them on the class: %s.from_file raises TypeError" % (c.name, c.name))
            r = _const_return(f)
            name = common.const_str(r) if r is not None else None
            ok = name is not None and "reader" in registered.get(name, {}) and "writer" in registered.get(name, {})
            R.ob("E1", "%s:registered" % c.name, ok, (f.file, f.lineno),
                 "%s offers to_file/from_file with object type '%s', for which no reader+writer pair is registered (registered: %s): saving or loading through this class always raises" % (
                     c.name, name, sorted(registered)))
        for m in p.modules.values():
            if not m.name.startswith(REPR):
                continue
            for c in m.classes.values():
                if "_CLASS_TO_OBJECT_TYPE_NAME" in c.consts and "_OBJECT_TYPE_NAME_TO_CLASS" in c.consts:
                    c2n, n2c = c.consts["_CLASS_TO_OBJECT_TYPE_NAME"], c.consts["_OBJECT_TYPE_NAME_TO_CLASS"]
                    if not (isinstance(c2n, ast.Dict) and isinstance(n2c, ast.Dict)):
                        raise AnalysisError("%s: type tables are not dict literals" % c.name)
                    fwd = {ast.unparse(k): common.const_str(v) for k, v in zip(c2n.keys, c2n.values)}
                    back = {common.const_str(k): ast.unparse(v) for k, v in zip(n2c.keys, n2c.values)}
                    bad = [(k, v) for k, v in fwd.items() if back.get(v) != k]
                    R.ob("E1", "%s:tables inverse" % c.name, not bad, (c.file, c.node.lineno), "%s: writer table and reader table disagree for %s: an object written as that type is read back as another class" % (c.name, bad))
                    # coverage of the family: every class named in the reader table that is a concrete kafe2 class must be writable
                    missing = sorted(set(back.values()) - set(fwd))
                    R.ob("E1", "%s:tables cover" % c.name, not missing or c.name == "ModelFunctionDReprBase", (c.file, c.node.lineno), "%s: classes %s can be read but not written" % (c.name, missing))

    # ---------------------------------------------------------------- E2
    with R.guard("E2"):
        helpers_w = [p.resolve_name(p.module(REPR + ".error.common_error_tools"), "write_errors_to_yaml")]
        helpers_r = [p.resolve_name(p.module(REPR + ".error.common_error_tools"), "process_error_sources")]
        sections = p.module(REPR + ".error.common_error_tools").consts.get("_yaml_error_section_for_axis")
        section_names = [common.const_str(v) for v in sections.values] if isinstance(sections, ast.Dict) else []
        if len(section_names) != 3:
            raise AnalysisError("error section table not found")
        for wn, rn in PAIRS:
            W, Rd = p.find_class(wn), p.find_class(rn)
            wf = [W.find_method("_make_representation")]
            uses_err = "write_errors_to_yaml" in ast.unparse(wf[0].node)
            rfuncs = [f for f in cache.visible_functions(Rd) if f.cls is Rd]
            wk = written_keys(wf + (helpers_w if uses_err else []))
            ck = consumed_keys(rfuncs + (helpers_r if uses_err else []))
            if uses_err:
                for s in section_names:
                    wk.setdefault(s, []).append((helpers_w[0], helpers_w[0].node))
            for k, sites in sorted(wk.items()):
                kk = k.split(":", 1)[1] if k.startswith("@entry:") else k
                f, n = sites[0]
                R.ob("E2", "%s:%s" % (wn, k), kk in ck, (f.file, getattr(n, "lineno", f.lineno)),
                     "%s writes the key '%s' but %s never consumes it: every file written by this class fails to load ('unknown or unsupported keywords') or loses that state" % (wn, kk, rn))
            req = Rd.find_method("_get_required_keywords")
            if req is not None and req.cls is Rd:
                need = set()
                for n in ast.walk(req.node):
                    if isinstance(n, ast.Return) and isinstance(n.value, ast.List):
                        need |= {common.const_str(e) for e in n.value.elts if common.const_str(e)}
                plain = {k for k in wk if not k.startswith("@entry:")}
                for k in sorted(need):
                    R.ob("E2", "%s:required %s" % (rn, k), k in plain, (req.file, req.lineno), "%s requires the key '%s' which %s never writes: no written file can be loaded" % (rn, k, wn))

    # ---------------------------------------------------------------- E3
    with R.guard("E3"):
        for wn, rn in PAIRS:
            W = p.find_class(wn)
            f = W.find_method("_make_representation")
            by_branch = {}
            for n in ast.walk(f.node):
                if isinstance(n, ast.Assign) and len(n.targets) == 1 and isinstance(n.targets[0], ast.Subscript) and common.const_str(n.targets[0].slice) \
                        and isinstance(n.targets[0].value, ast.Name) and n.targets[0].value.id == "_yaml_doc":
                    cond = " & ".join(ast.unparse(c) + str(pol) for c, pol in common.guard_conditions(f.node, n))
                    by_branch.setdefault(cond, []).append((common.const_str(n.targets[0].slice), ast.dump(n.value), n))
            dup = None
            for cond, items in by_branch.items():
                seen = {}
                for k, d, n in items:
                    if isinstance(n.value, (ast.Constant,)) or (isinstance(n.value, ast.Name)):
                        continue
                    if d in seen and seen[d] != k:
                        dup = (seen[d], k, n)
                    seen[d] = k
            R.ob("E3", wn, dup is None, (f.file, dup[2].lineno if dup else f.lineno),
                 "%s writes the keys '%s' and '%s' from the same expression (%s): one of the two values is lost on every round trip" % (wn, dup[0] if dup else "", dup[1] if dup else "", norm_stmt(dup[2].value) if dup else ""))

    # ---------------------------------------------------------------- E4
    with R.guard("E4"):
        cw = p.find_class("ConstraintYamlWriter").find_method("_make_representation")

        def accessor_by_flag(f, key, var="_yaml_doc"):
            """[(value of the flag `relative` on the path, value written under `key` with the temporaries of the path written out)] - per path, so that an if/else, a
            conditional expression (also inside the written value) and a flag held in a local are the same thing"""
            from ..termform import path_exprs, subst

            def pick(st):
                if isinstance(st, ast.Assign) and len(st.targets) == 1 and isinstance(st.targets[0], ast.Subscript) and common.const_str(st.targets[0].slice) == key:
                    return [st.value]
                return []

            res = []
            for conds, e, env in path_exprs(f.node, pick):
                rel = {pol for t, pol in common.conj_normal_form([(t, pol) for t, pol in conds]) if t.endswith("relative")}
                res.append((next(iter(rel)) if len(rel) == 1 else None, ast.unparse(subst(e, env))))
            return res

        def check_flagged(rule_key, f, key, branch_filter=None):
            res = accessor_by_flag(f, key)
            if branch_filter:
                res = [r for r in res if branch_filter(r[1])]
            if not res:
                raise AnalysisError("E4: writer of key %s not found in %s" % (key, f.qualname))
            bad = [(fl, v) for fl, v in res if fl is None or (fl is True and "_rel" not in v) or (fl is False and "_rel" in v)]
            R.ob("E4", rule_key, not bad, (f.file, f.lineno),
                 "%s writes '%s' as %s: the value is stored relative or absolute depending on the flag `relative` (which is written too), so the accessor must be "
                 "chosen by that flag - otherwise a reloaded relative object is scaled by its reference once more" % (f.qualname, key, bad))

        check_flagged("simple constraint:uncertainty", cw, "uncertainty")
        check_flagged("matrix constraint:matrix(cov)", cw, "matrix", lambda v: "cov_mat" in v)
        check_flagged("matrix constraint:uncertainties", cw, "uncertainties")
        we = helpers_w[0]
        src = common.src_of(we.node)
        # placeholders: `_e` the error dictionary, `_r` the relative flag, `_v` the values written, `_s` the section list
        OBJ = ["_e['err']", "_o"]
        ok = any(common.like_any(src, ["_r = %s.relative" % o, "_v = %s.error_rel if _r else %s.error" % (o, o)] + (["_o = _e['err']"] if o == "_o" else []),
                                 ["_v = %s.error_rel if %s.relative else %s.error" % (o, o, o)] + (["_o = _e['err']"] if o == "_o" else [])) for o in OBJ)
        # ... and every place that writes `error_value` (simple sources, matrix sources given as correlation matrix + values) writes values chosen that way
        from ..termform import path_exprs as _path_exprs

        def _pick_error_value(st):
            out = []
            from ..canon import _own_nodes
            for c in _own_nodes(st):
                if isinstance(c, ast.Call) and isinstance(c.func, ast.Name) and c.func.id == "dict":
                    out += [k.value for k in c.keywords if k.arg == "error_value"]
            if isinstance(st, ast.Assign) and isinstance(st.targets[0], ast.Subscript) and common.const_str(st.targets[0].slice) == "error_value":
                out.append(st.value)
            return out

        n_writes, all_flagged = 0, True
        for conds, e, env in _path_exprs(we.node, _pick_error_value):
            from ..termform import subst as _subst
            n_writes += 1
            e2 = _subst(e, env)
            rel = {pol for t, pol in conds if " ".join(ast.unparse(t).split()).endswith(".relative")}
            attrs = {x.attr for x in ast.walk(e2) if isinstance(x, ast.Attribute) and x.attr in ("error", "error_rel")}
            want = {True: {"error_rel"}, False: {"error"}}.get(next(iter(rel)) if len(rel) == 1 else None)
            all_flagged = all_flagged and want is not None and attrs == want
        ok = ok and all_flagged and n_writes >= 2
        R.ob("E4", "error source:error_value", ok, (we.file, we.lineno), "write_errors_to_yaml must write the relative error values of a relative source and the absolute ones otherwise")
        ok = any(common.like_any(src, ["_r = %s.relative" % o, "%s['matrix'] = %s.cov_mat_rel if _r else %s.cov_mat" % (tgt, o, o)] + (["_o = _e['err']"] if o == "_o" else []),
                                 ["%s['matrix'] = %s.cov_mat_rel if %s.relative else %s.cov_mat" % (tgt, o, o, o)] + (["_o = _e['err']"] if o == "_o" else []))
                 for o in OBJ for tgt in ("_s[-1]", "_entry"))   # (written into the last entry of the section, or into the entry held in a local)
        R.ob("E4", "error source:matrix", ok, (we.file, we.lineno), "write_errors_to_yaml must write the relative covariance matrix of a relative matrix source and the absolute one otherwise")

    # ---------------------------------------------------------------- E5
    with R.guard("E5"):
        ic = p.find_class("IndexedContainer").find_method("_calculate_total_error")
        used = {common.const_str(n.slice) for n in ast.walk(ic.node) if isinstance(n, ast.Subscript) and isinstance(n.value, ast.Name) and n.value.id == "_err_dict" and common.const_str(n.slice)}
        xc = p.find_class("XYContainer").find_method("_calculate_total_error")
        used |= {common.const_str(n.slice) for n in ast.walk(xc.node) if isinstance(n, ast.Subscript) and isinstance(n.value, ast.Name) and n.value.id == "_err_dict" and common.const_str(n.slice)}
        wsrc = ast.unparse(we.node)
        rsrc = ast.unparse(helpers_r[0].node)
        # the writer's name for one source dictionary (loop over `<container>._error_dicts.items()`), the reader's name for one specification (`<spec>.get('type', ..)`)
        wd = next((l.target.elts[1].id for l in ast.walk(we.node) if isinstance(l, ast.For) and isinstance(l.target, ast.Tuple) and len(l.target.elts) == 2
                   and isinstance(l.target.elts[1], ast.Name) and "_error_dicts.items()" in ast.unparse(l.iter)), "_err_dict")
        rd = next((c.func.value.id for c in ast.walk(helpers_r[0].node) if isinstance(c, ast.Call) and isinstance(c.func, ast.Attribute) and c.func.attr == "get"
                   and isinstance(c.func.value, ast.Name) and c.args and common.const_str(c.args[0]) == "type"), "_err")
        # the dictionaries written per source: `section.append(dict(..))`, or a local `rec = dict(..)` that is appended
        pm = common.parents_of(we.node)
        appended_names = {c.args[0].id for c in ast.walk(we.node) if isinstance(c, ast.Call) and isinstance(c.func, ast.Attribute) and c.func.attr == "append" and c.args and isinstance(c.args[0], ast.Name)}
        entry_dicts = []
        for n in ast.walk(we.node):
            if isinstance(n, ast.Call) and isinstance(n.func, ast.Name) and n.func.id == "dict" and n.keywords:
                par = pm.get(id(n))
                if isinstance(par, ast.Call) and getattr(par.func, "attr", "") == "append":
                    entry_dicts.append(n)
                elif isinstance(par, ast.Assign) and len(par.targets) == 1 and isinstance(par.targets[0], ast.Name) and par.targets[0].id in appended_names:
                    entry_dicts.append(n)
        for k in sorted(used):
            if k == "err":
                ok = ("%s['err']" % wd) in wsrc
            elif k == "axis":
                ok = ("%s.get('axis'" % wd) in wsrc and "axis" in rsrc
            else:
                ok = bool(entry_dicts) and all(any(kw.arg == k and ("%s['%s']" % (wd, k)) in ast.unparse(kw.value).replace('"', "'") for kw in d.keywords) for d in entry_dicts) \
                    and ("%s.get('%s'" % (rd, k)) in rsrc.replace('"', "'")
            R.ob("E5", "source state:%s" % k, ok, (we.file, we.lineno), "the per-source state '%s' (used by the total uncertainty) is not written and restored: a reloaded container has a different total covariance" % k)
        if "enabled" in used:
            R.ob("E5", "source state:enabled applied", "disable_error" in rsrc, (helpers_r[0].file, helpers_r[0].lineno), "process_error_sources reads 'enabled' but never disables the source")
        fr = p.find_class("FitYamlReader").find_method("_convert_yaml_doc_to_object")
        ls = p.find_class("FitBase").find_method("load_state")
        for nm, f in (("FitYamlReader", fr), ("FitBase.load_state", ls)):
            s = ast.unparse(f.node)
            ok = "parameter_values" in s and "set_all_fit_parameter_values" in s
            R.ob("E5", "%s:parameter values applied" % nm, ok, (f.file, f.lineno), "%s stores the loaded results but does not apply the stored parameter values (for a custom fit they are stored nowhere else)" % nm)

    # ---------------------------------------------------------------- E6
    with R.guard("E6"):
        yw = p.find_class("YamlWriterMixin").find_method("write")
        g = eng.cfg(yw)

        def is_trunc(n):
            return any(isinstance(c.func, ast.Attribute) and c.func.attr == "truncate" and c.args and isinstance(c.args[0], ast.Constant) and c.args[0].value == 0 for c in eng.calls_in_parts(n.ast_parts()))

        def is_write(n):
            for c in eng.calls_in_parts(n.ast_parts()):
                if isinstance(c.func, ast.Attribute) and c.func.attr in ("write", "dump") and not is_self(c.func.value):
                    return True
            return False

        writes = [n for n in g.stmt_nodes() if is_write(n)]
        ok = bool(writes) and all(g.dominated_by(n.id, is_trunc)[0] for n in writes)
        R.ob("E6", "YamlWriterMixin.write", ok, (yw.file, yw.lineno), "the YAML writer can write to the append-mode handle without truncating first: writing to an existing file appends a second document")
        oh = p.find_class("OutputFileHandle").find_method("__init__")
        modes = [common.const_str(k.value) for c in ast.walk(oh.node) if isinstance(c, ast.Call) for k in c.keywords if k.arg == "mode"]
        # every writer class registered overrides write through YamlWriterMixin
        bad = []
        for wn, _ in PAIRS:
            W = p.find_class(wn)
            if W.find_method("write") is not yw:
                bad.append(wn)
        R.ob("E6", "writers use the truncating write", not bad and modes == ["a"], (yw.file, yw.lineno), "writers %s do not use YamlWriterMixin.write while OutputFileHandle opens in mode %s" % (bad, modes))

    # ---------------------------------------------------------------- E7
    with R.guard("E7"):
        pe = helpers_r[0]
        pen = eng.cnode(pe)  # canonical: a shared wrapping helper is written out for each of the three lists
        # the list popped for each key, followed through plain copies
        group = {}

        def find(x):
            while group.get(x, x) != x:
                x = group[x]
            return x

        popped = {}
        for n in ast.walk(pen):
            if isinstance(n, ast.Assign) and len(n.targets) == 1 and isinstance(n.targets[0], ast.Name):
                v = n.value
                if isinstance(v, ast.Name):
                    group[find(n.targets[0].id)] = find(v.id)
                if isinstance(v, ast.Call) and isinstance(v.func, ast.Attribute) and v.func.attr == "pop" and v.args and common.const_str(v.args[0]) in ("x_errors", "y_errors", "errors"):
                    popped[common.const_str(v.args[0])] = n.targets[0].id
        tests = {}
        for n in ast.walk(pen):
            if isinstance(n, ast.Call) and isinstance(n.func, ast.Name) and n.func.id == "isinstance" and len(n.args) == 2 and isinstance(n.args[0], ast.Subscript) \
                    and isinstance(n.args[0].value, ast.Name) and ast.unparse(n.args[0].slice) == "0":
                ty = n.args[1]
                names = sorted(e.id for e in (ty.elts if isinstance(ty, ast.Tuple) else [ty]) if isinstance(e, ast.Name))
                for key, var in popped.items():
                    if find(var) == find(n.args[0].value.id):
                        tests[{"x_errors": "_xerrs", "y_errors": "_yerrs", "errors": "_errs"}[key]] = names
        if set(tests) != {"_xerrs", "_yerrs", "_errs"}:
            raise AnalysisError("process_error_sources: shorthand element tests not found (%s)" % sorted(tests))
        ref = tests["_yerrs"]
        for k, v in sorted(tests.items()):
            R.ob("E7", "shorthand list:%s" % k, v == ref, (pe.file, pe.lineno), "the shorthand list test for %s accepts %s, the sibling sections accept %s: the same YAML list works for one section and is rejected for another" % (k, v, ref))

    # ---------------------------------------------------------------- E9: nothing clears the loaded results after they were installed
    with R.guard("E9: nothing clears the loaded results after they were instal"):
        R.rule("E9", "in the fit reader no call that clears the loaded results (a fit mutator) can follow the installation of the stored fit results", 1)
        R.rule("E12", "the reader applies the stored parameter values after it re-fixes parameters (fix_parameter(name, value) resets the value to the one recorded when it was "
                      "fixed; the current value is only in the stored results)", 1)
        XF = p.find_class("XYFit")
        # the function of the reader class that installs the results (the reader itself, or a helper its tail was moved into) and the name the fit has there
        host, fitvar = None, None
        for m in p.find_class("FitYamlReader").all_methods().values():
            if not hasattr(m, "node"):
                continue
            for n in ast.walk(m.node):
                if isinstance(n, ast.Assign):
                    for t in n.targets:
                        if isinstance(t, ast.Attribute) and t.attr == "_loaded_result_dict" and isinstance(t.value, ast.Name):
                            host, fitvar = m, t.value.id
        if host is None:
            raise AnalysisError("FitYamlReader: installation of the loaded results not found")
        g = eng.cfg(host)

        def installs(n):
            st = n.stmt
            return n.kind == "stmt" and isinstance(st, ast.Assign) and any(isinstance(t, ast.Attribute) and t.attr == "_loaded_result_dict" and isinstance(t.value, ast.Name) and t.value.id == fitvar for t in st.targets)

        inst = [n for n in g.stmt_nodes() if installs(n)]
        clearing, fixing, valuing = {}, set(), set()
        for n in g.stmt_nodes():
            for c in eng.calls_in_parts(n.ast_parts()):
                if not isinstance(c.func, ast.Attribute):
                    continue
                recv = c.func.value
                on_fit = isinstance(recv, ast.Name) and recv.id == fitvar
                on_fitter = isinstance(recv, ast.Attribute) and recv.attr == "_fitter" and isinstance(recv.value, ast.Name) and recv.value.id == fitvar
                if on_fit:
                    m = XF.find_method(c.func.attr)
                    if m is not None and "_loaded_result_dict" in eng.eff.trans_writes(XF, m):
                        clearing[n.id] = c.func.attr
                    if c.func.attr == "fix_parameter":
                        fixing.add(n.id)
                if (on_fit and c.func.attr in ("set_all_parameter_values", "set_parameter_values")) or (on_fitter and c.func.attr in ("set_all_fit_parameter_values", "set_fit_parameter_values")):
                    valuing.add(n.id)
        bad = None
        for n in inst:
            pth = g.find_path(n.id, lambda k: k.id in clearing, exceptional=False)
            if pth is not None:
                bad = (n, pth[-1])
        R.ob("E9", "FitYamlReader:results installed last", bad is None, (host.file, bad[0].lineno if bad else host.lineno),
             "after the stored fit results are installed the reader still calls %s.%s(), which clears them: a reloaded fit with that feature reports did_fit=False and no uncertainties" % (fitvar, clearing.get(bad[1].id) if bad else ""))
        if not fixing:
            raise AnalysisError("FitYamlReader: re-fixing of parameters not found next to the installation of the results (%s)" % host.qualname)
        bad = None
        for v in valuing:
            pth = g.find_path(v, lambda k: k.id in fixing, exceptional=False)
            if pth is not None:
                bad = pth
        R.ob("E12", "FitYamlReader:stored values after fixing", bad is None, (host.file, bad[0].lineno if bad else host.lineno),
             "the stored parameter values are applied before the parameters are re-fixed: fix_parameter(name, recorded value) then resets a fixed parameter whose value was changed "
             "after fixing, and the reloaded fit differs from the saved one")

    # ---------------------------------------------------------------- E10: exact collapse of constant error vectors
    with R.guard("E10: exact collapse of constant error vectors"):
        R.rule("E10", "an uncertainty vector is written as a single number only if all entries are exactly equal (no tolerance)", 1)
        tol = [common.call_name(c) for c in ast.walk(we.node) if isinstance(c, ast.Call) and common.call_name(c) in ("allclose", "isclose")]
        R.ob("E10", "write_errors_to_yaml:collapse", not tol, (we.file, we.lineno), "write_errors_to_yaml collapses error vectors with a tolerance (%s): vectors of small, different uncertainties come back as a constant" % tol)

    # ---------------------------------------------------------------- E11: stored flags / numbers are not dropped by a truthiness test
    with R.guard("E11: stored flags / numbers are not dropped by a truthiness "):
        R.rule("E11", "a stored value that can be falsy (a flag, a number) is restored whatever its value: readers test such keys for presence (`in`, `is not None`), never for truth", 2)
        rep_mods = [m for m in p.modules.values() if m.name.startswith("kafe2.fit.representation")]
        falsy_keys = {}
        for m in rep_mods:
            for n in ast.walk(m.tree):
                if isinstance(n, ast.Assign) and len(n.targets) == 1 and isinstance(n.targets[0], ast.Subscript) and isinstance(n.targets[0].value, ast.Name) and "yaml_doc" in n.targets[0].value.id:
                    k = common.const_str(n.targets[0].slice)
                    if k is None:
                        continue
                    v = n.value
                    why = None
                    if isinstance(v, ast.Call) and isinstance(v.func, ast.Name) and v.func.id in ("float", "int", "bool"):
                        why = "%s(...)" % v.func.id
                    elif isinstance(v, ast.Constant) and isinstance(v.value, (bool, int, float)):
                        why = "constant"
                    elif isinstance(v, ast.Attribute):
                        for cls in _classes(p):
                            ini = cls.find_method("__init__")
                            if ini is None or (cls.find_prop(v.attr) is None):
                                continue
                            args = ini.node.args
                            names = [a.arg for a in args.args]
                            defs = dict(zip(names[len(names) - len(args.defaults):], args.defaults))
                            d = defs.get(v.attr)
                            if isinstance(d, ast.Constant) and isinstance(d.value, (bool, int, float)) and d.value is not None:
                                why = "%s(%s=%r)" % (cls.name, v.attr, d.value)
                                break
                    if why:
                        falsy_keys.setdefault(k, why)
        for k in ("enabled", "relative", "density"):
            if k not in falsy_keys:
                falsy_keys[k] = "flag (by name)"
        R.info["keys whose stored value can be falsy"] = {k: falsy_keys[k] for k in sorted(falsy_keys)}
        n_reads = 0
        for m in rep_mods:
            for fn in [x for x in ast.walk(m.tree) if isinstance(x, ast.FunctionDef)]:
                bound = {}
                for n in ast.walk(fn):
                    if isinstance(n, ast.Assign) and len(n.targets) == 1 and isinstance(n.targets[0], ast.Name) and isinstance(n.value, ast.Call) and isinstance(n.value.func, ast.Attribute) \
                            and n.value.func.attr in ("pop", "get") and n.value.args and common.const_str(n.value.args[0]) in falsy_keys:
                        bound[n.targets[0].id] = (common.const_str(n.value.args[0]), n.lineno)
                if not bound:
                    continue
                n_reads += len(bound)
                bad = []
                for n in ast.walk(fn):
                    # `if NAME:` (alone or in a conjunction) whose body forwards NAME and whose else-branch does not: the value is used only when truthy
                    if not isinstance(n, ast.If):
                        continue
                    conj = n.test.values if isinstance(n.test, ast.BoolOp) and isinstance(n.test.op, ast.And) else [n.test]
                    for t in conj:
                        if isinstance(t, ast.Name) and t.id in bound:
                            in_body = any(isinstance(x, ast.Name) and x.id == t.id and isinstance(x.ctx, ast.Load) for b in n.body for x in ast.walk(b))
                            in_else = any(isinstance(x, ast.Name) and x.id == t.id and isinstance(x.ctx, ast.Load) for b in n.orelse for x in ast.walk(b))
                            if in_body and not in_else:
                                bad.append((t.id, bound[t.id][0], t.lineno))
                for name, key, line in sorted(set(bad)):
                    R.ob("E11", "%s:%s:%s" % (m.relpath, fn.name, key), False, (m.relpath, line),
                         "the reader drops the stored '%s' when it is falsy (`if %s:` after pop/get): a saved %s=False / 0 comes back as the constructor default" % (key, name, key))
                if not bad:
                    R.ob("E11", "%s:%s" % (m.relpath, fn.name), True, (m.relpath, fn.lineno), "")
        if n_reads < 2:
            raise AnalysisError("E11: reads of flag / number keys in the readers not found (%d)" % n_reads)

    # ---------------------------------------------------------------- E13: mappings whose order the reader turns into a list order are written in source order
    with R.guard("E13: mappings whose order the reader turns into a list order"):
        R.rule("E13", "a mapping that the reader turns into a list (positional meaning) is written in the order of the object it describes: no sorting / set on the way", 1)
        check_order_carrying(eng, R, "E13")

        # the implicit no-errors state is part of the fit: it is written as the default identifier the constructor turns back into that state
        iw = p.find_class("FitYamlWriter").find_method("_make_representation")
        isrc = common.src_of(iw.node)
        R.ob("E5", "FitYamlWriter:implicit cost function", isrc.like("if fit._implicit_no_errors: _cid = 'chi2'") and isrc.like("_yaml_doc['cost_function'] = "), (iw.file, iw.lineno),
             "a fit in the implicit no-errors state must be written with the default cost function identifier: written as 'chi2_no_errors' it comes back without the switch, "
             "and uncertainties added to the reloaded fit are ignored")

    # ---------------------------------------------------------------- E14: settings given to the fit constructor come back
    with R.guard("E14: settings given to the fit constructor come back"):
        R.rule("E14", "every setting a fit constructor stores on the fit (beyond data, model, cost function and minimizer, which have their own entries) is restored by the reader: "
                      "passed to the constructor or assigned to the new object", 4)
        rsrc = common.src_of(fr.node)
        fwm = p.find_class("FitYamlWriter").find_method("_make_representation")
        wsrc = common.src_of(fwm.node)
        handled = {"self", "data", "xy_data", "model_function", "model_density_function", "cost_function", "minimizer", "minimizer_kwargs"}
        n14 = 0
        for cn in ("XYFit", "IndexedFit", "HistFit", "UnbinnedFit"):
            ini = p.find_class(cn).find_method("__init__")
            for a in ini.node.args.args:
                q = a.arg
                if q in handled:
                    continue
                n14 += 1
                restored = ("_fit_kwargs['%s']" % q) in rsrc or ("_fit_object.%s =" % q) in rsrc or ("_fit_object._%s =" % q) in rsrc
                written = ("_yaml_doc['%s']" % q) in wsrc or any(("_yaml_doc['%s']" % q) in common.src_of(m.node) for m in [p.find_class("ParametricModelYamlWriter").find_method("_make_representation")])
                R.ob("E14", "%s:%s" % (cn, q), restored and written, (fr.file, fr.lineno),
                     "%s(%s=...) is stored on the fit but %s: a reloaded fit silently falls back to the default" % (cn, q, "not written to the file" if not written else "never restored by the reader"))
        if n14 < 4:
            raise AnalysisError("E14: constructor settings of the fit classes not found")

    # ---------------------------------------------------------------- E8
    with R.guard("E8"):
        src = common.src_of(fr.node)
        R.ob("E8", "FitYamlReader:param model", "_fit_object._param_model = _read_parametric_model" not in src or ("_on_error_change_callback = _fit_object._on_error_change" in src and "_fit_object._on_error_change()" in src),
             (fr.file, fr.lineno), "the reader replaces the fit's parametric model without wiring it to the fit's error-change callback / invalidating the error nodes")
        R.ob("E8", "FitYamlReader:constraints", "_fit_object._fit_param_constraints = [" not in src or "_fit_object._on_constraint_change()" in src, (fr.file, fr.lineno),
             "the reader replaces the fit's constraint list without invalidating the constraint node")

    # ---------------------------------------------------------------- E15: results re-injected from a file take precedence in the result dictionary
    with R.guard("E15: re-injected results take precedence in the result dictio"):
        R.rule("E15", "get_result_dict (what a second save writes) reads the minimiser's own asymmetric uncertainties only when no results were re-injected from a file: a "
                      "reloaded fit has them in _loaded_result_dict only, its own minimiser never computed any", 1)
        gr = p.find_class("FitBase").find_method("get_result_dict")
        reads = [a for a in ast.walk(gr.node) if isinstance(a, ast.Attribute) and a.attr == "asymmetric_fit_parameter_errors_if_calculated" and isinstance(a.ctx, ast.Load)]
        if not reads:
            raise AnalysisError("FitBase.get_result_dict: read of the minimiser's asymmetric errors not found")
        from ..canon import negate, positive

        def _about_loaded(d):
            # `L is None` or `L['asymmetric_parameter_errors'] is None` (L the re-injected results, possibly through a local)
            if not (isinstance(d, ast.Compare) and len(d.ops) == 1 and isinstance(d.ops[0], ast.Is) and isinstance(d.comparators[0], ast.Constant) and d.comparators[0].value is None):
                return None
            left = common.resolve_local(gr.node, d.left)
            if isinstance(left, ast.IfExp) and isinstance(left.body, ast.Constant) and left.body.value is None:
                # `(None if L is None else L['..']) is None`  ==  `L is None or L['..'] is None`
                k1 = _about_loaded(left.test)
                k2 = _about_loaded(ast.Compare(left=left.orelse, ops=[ast.Is()], comparators=[ast.Constant(value=None)]))
                return "dict" if k1 == "dict" and k2 is not None else None
            if isinstance(left, ast.Subscript) and common.const_str(left.slice) == "asymmetric_parameter_errors":
                left, kind = common.resolve_local(gr.node, left.value), "entry"
            else:
                kind = "dict"
            return kind if " ".join(ast.unparse(left).split()) == "self._loaded_result_dict" else None

        for a in reads:
            ok = False
            for t, pol in common.guard_conditions(gr.node, a):
                t = positive(t) if pol else negate(positive(t))
                kinds = [_about_loaded(d) for d in (t.values if isinstance(t, ast.BoolOp) and isinstance(t.op, ast.Or) else [t])]
                ok = ok or ("dict" in kinds and None not in kinds)
            R.ob("E15", "FitBase.get_result_dict:asymmetric errors", ok, (gr.file, a.lineno),
                 "get_result_dict takes the asymmetric uncertainties from the fit's own minimiser although results re-injected from a file may be present: a reloaded fit "
                 "reports (and a second save writes) None instead of the stored values")


def _classes(p):
    out = []
    for m in p.modules.values():
        out.extend(m.classes.values())
    return out


def check_order_carrying(eng, R, rule):
    p = eng.p
    n_ord = 0
    for rcls in [c for c in _classes(p) if c.name.endswith("YamlReader")]:
        rf = rcls.find_method("_convert_yaml_doc_to_object")
        if rf is None or rf.cls is not rcls:
            continue
        popped = {}
        for n in ast.walk(rf.node):
            if isinstance(n, ast.Assign) and len(n.targets) == 1 and isinstance(n.targets[0], ast.Name) and isinstance(n.value, ast.Call) and isinstance(n.value.func, ast.Attribute) \
                    and n.value.func.attr in ("pop", "get") and n.value.args and common.const_str(n.value.args[0]):
                popped[n.targets[0].id] = common.const_str(n.value.args[0])
        ordered = set()
        for n in ast.walk(rf.node):
            if isinstance(n, ast.ListComp):
                for gen in n.generators:
                    it = gen.iter
                    base = it.func.value if isinstance(it, ast.Call) and isinstance(it.func, ast.Attribute) and it.func.attr in ("items", "keys", "values") else it
                    if isinstance(base, ast.Name) and base.id in popped and isinstance(it, ast.Call):
                        ordered.add(popped[base.id])
        wcls = p.find_class(rcls.name.replace("Reader", "Writer")) if any(c.name == rcls.name.replace("Reader", "Writer") for c in _classes(p)) else None
        if wcls is None:
            continue
        wf = wcls.find_method("_make_representation")
        for key in sorted(ordered):
            n_ord += 1
            bad = []

            def scan(expr, depth=0):
                for c in ast.walk(expr):
                    if isinstance(c, ast.Call):
                        nm = common.call_name(c)
                        if nm in ("sorted", "reversed", "set", "frozenset", "sort"):
                            bad.append(nm)
                        elif isinstance(c.func, ast.Attribute) and isinstance(c.func.value, ast.Name) and c.func.value.id in ("cls", "self", wcls.name) and depth < 2:
                            m = wcls.find_method(c.func.attr)
                            if m is not None:
                                for st in ast.walk(m.node):
                                    if isinstance(st, ast.Return) and st.value is not None:
                                        scan(st.value, depth + 1)
                    if isinstance(c, ast.Name) and depth < 3:
                        for a in ast.walk(wf.node):
                            if isinstance(a, ast.Assign) and isinstance(a.targets[0], ast.Name) and a.targets[0].id == c.id and a.value is not expr:
                                scan(a.value, depth + 3)

            for a in ast.walk(wf.node):
                if isinstance(a, ast.Assign) and isinstance(a.targets[0], ast.Subscript) and common.const_str(a.targets[0].slice) == key:
                    scan(a.value)
            R.ob(rule, "%s:%s" % (wcls.name, key), not bad, (wf.file, wf.lineno),
                 "'%s' is read back as a list in the order of the mapping, but the writer re-orders it (%s): values, uncertainties and the fixed marker are then shown under the wrong names" % (key, sorted(set(bad))))
    if n_ord < 1:
        raise AnalysisError("no order-carrying mapping found in the readers")
