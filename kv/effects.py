"""Callee resolution and interprocedural read/write effect summaries (no external type checker).

Analysis context = a *concrete* class C: `self.m()` means what it means for an instance of C.
Effects are sets of field paths relative to `self` ("_data", "_fitter._fixed_pars", ...), closed
transitively over resolved calls (self-calls, super-calls, explicit K.m(self), property accessors,
calls through typed fields, module functions, constructors).
"""
import ast

from .srcmodel import AnalysisError, ClassInfo, FuncInfo, PropInfo

MUTATORS = {
    "append", "extend", "update", "pop", "clear", "remove", "insert", "add", "discard", "setdefault", "sort",
    "popitem", "reverse", "fill", "__setitem__",
}
ZERO_ARG_MUTATORS = {"pop", "clear", "sort", "reverse", "popitem"}
# container views whose iteration yields aliases of the content
VIEW_CALLS = {"values", "items", "get", "setdefault", "pop"}


def walk_no_nested(node):
    """ast.walk that does not descend into nested function/lambda/class bodies (closures run later)."""
    stack = [node]
    first = True
    while stack:
        n = stack.pop()
        if not first and isinstance(n, (ast.FunctionDef, ast.AsyncFunctionDef, ast.Lambda, ast.ClassDef)):
            yield n  # the definition node itself, not its body
            continue
        first = False
        yield n
        stack.extend(ast.iter_child_nodes(n))


def is_self(e, selfname="self"):
    return isinstance(e, ast.Name) and e.id == selfname


def self_attr(e, selfname="self"):
    """`self.x` -> 'x' else None"""
    if isinstance(e, ast.Attribute) and is_self(e.value, selfname):
        return e.attr
    return None


class Site:
    """One effect occurrence inside a function."""
    __slots__ = ("kind", "path", "node", "how")

    def __init__(self, kind, path, node, how):
        self.kind = kind  # 'w' | 'r'
        self.path = path
        self.node = node
        self.how = how  # rebind | content | call-mutator | attr

    def __repr__(self):
        return "<%s %s %s L%s>" % (self.kind, self.path, self.how, getattr(self.node, "lineno", "?"))


class CallSite:
    __slots__ = ("node", "targets", "prefix", "desc", "is_ctor")

    def __init__(self, node, targets, prefix, desc, is_ctor=False):
        self.node = node
        self.targets = targets  # list of (ctx ClassInfo|None, FuncInfo)
        self.prefix = prefix  # field path prefix of the receiver relative to self ('' = self, None = other object)
        self.desc = desc
        self.is_ctor = is_ctor


class FuncSummary:
    def __init__(self, ctx, func):
        self.ctx = ctx
        self.func = func
        self.sites = []  # direct read/write Sites
        self.calls = []  # CallSites
        self.opaque_calls = []  # ast.Call nodes that could not be resolved
        self.returns_alias = set()  # field paths the return value may alias
        self.alias = {}  # local var -> set of root paths
        self.local_types = {}  # local var -> list[ClassInfo]


class Effects:
    def __init__(self, program, field_types=None, elem_types=None, return_types=None):
        """field_types: {(class name, field): [class names]}; '@CONST' entries mean: the class named by that class constant."""
        self.p = program
        self.field_types_spec = field_types or {}
        self.elem_types_spec = elem_types or {}
        self.return_types_spec = return_types or {}
        self._summ = {}
        self._trans_w = {}
        self._trans_r = {}
        self._auto_field_types = {}
        self.stats = {"calls": 0, "resolved": 0, "opaque": 0}

    # ----------------------------------------------------------- typing of fields
    def field_types(self, ctx, field):
        if ctx is None:
            return []
        for k in ctx.mro:
            spec = self.field_types_spec.get((k.name, field))
            if spec is not None:
                out = []
                for s in spec:
                    if s.startswith("@"):
                        r = ctx.lookup(s[1:])
                        if r and r[0] == "const":
                            c = self.p.resolve_expr_to_class(r[2].module, r[1])
                            if c is not None:
                                out.append(c)
                    else:
                        out.append(self.p.find_class(s))
                return out
        return self._auto_types(ctx).get(field, [])

    def _auto_types(self, ctx):
        """fields assigned from a repo-class constructor anywhere in the MRO: self.X = K(...)"""
        key = id(ctx)
        if key in self._auto_field_types:
            return self._auto_field_types[key]
        out = {}
        for k in ctx.mro:
            funcs = list(k.methods.values())
            for pr in k.props.values():
                funcs += [f for f in (pr.fget, pr.fset) if f is not None and f.cls is k]
            for f in funcs:
                for n in ast.walk(f.node):
                    if isinstance(n, ast.Assign) and isinstance(n.value, ast.Call):
                        c = self.p.resolve_expr_to_class(f.module, n.value.func)
                        if c is None:
                            continue
                        for t in n.targets:
                            a = self_attr(t)
                            if a is not None:
                                out.setdefault(a, [])
                                if c not in out[a]:
                                    out[a].append(c)
        self._auto_field_types[key] = out
        return out

    def elem_types(self, ctx, field):
        for k in (ctx.mro if ctx else []):
            spec = self.elem_types_spec.get((k.name, field))
            if spec is not None:
                return [self.p.find_class(s) for s in spec]
        return []

    # ----------------------------------------------------------- summaries
    def summary(self, ctx, func):
        key = (id(ctx), id(func))
        s = self._summ.get(key)
        if s is None:
            s = FuncSummary(ctx, func)
            self._summ[key] = s
            self._build(s)
        return s

    def _selfname(self, func):
        if func.cls is None or func.kind == "static":
            return None
        ps = func.params()
        return ps[0] if ps else None

    def _build(self, s):
        func, ctx = s.func, s.ctx
        selfname = self._selfname(func)
        if func.kind == "class":
            selfname = None
        body = func.node
        # pass 1: local aliases and local types (flow-insensitive, iterate to fixpoint twice)
        for _ in range(3):
            for n in walk_no_nested(body):
                if isinstance(n, ast.Assign):
                    roots = self._roots(n.value, s, selfname)
                    types = self._expr_types(n.value, s, selfname)
                    for t in n.targets:
                        self._bind_target(t, roots, types, s)
                elif isinstance(n, (ast.For, ast.comprehension)):
                    roots = self._roots(n.iter, s, selfname, iterating=True)
                    types = self._iter_elem_types(n.iter, s, selfname)
                    self._bind_target(n.target, roots, types, s)
                elif isinstance(n, ast.withitem) and n.optional_vars is not None:
                    self._bind_target(n.optional_vars, set(), self._expr_types(n.context_expr, s, selfname), s)
        # pass 2: sites and calls
        for n in walk_no_nested(body):
            self._visit(n, s, selfname)
        for n in walk_no_nested(body):
            if isinstance(n, ast.Return) and n.value is not None:
                s.returns_alias |= self._roots(n.value, s, selfname)

    def _bind_target(self, t, roots, types, s):
        if isinstance(t, ast.Name):
            if roots:
                s.alias.setdefault(t.id, set()).update(roots)
            if types:
                cur = s.local_types.setdefault(t.id, [])
                for c in types:
                    if c not in cur:
                        cur.append(c)
        elif isinstance(t, (ast.Tuple, ast.List)):
            for e in t.elts:
                self._bind_target(e, roots, [], s)

    # -- alias roots of an expression (which fields of self may the value alias?)
    def _roots(self, e, s, selfname, iterating=False):
        if e is None:
            return set()
        if isinstance(e, ast.Name):
            return set(s.alias.get(e.id, ()))
        if isinstance(e, ast.Attribute):
            if selfname and is_self(e.value, selfname):
                r = s.ctx.lookup(e.attr) if s.ctx else None
                if r and r[0] == "prop":
                    g = r[1].fget
                    if g is not None and g is not s.func:
                        return set(self.summary(s.ctx, g).returns_alias)
                    return set()
                if r and r[0] == "method":
                    return set()
                return {e.attr}
            base = self._roots(e.value, s, selfname)
            if base:
                # attribute of an aliased object: typed field path if we know it, else content of the root
                out = set()
                for b in base:
                    out.add(b)
                return out
            return set()
        if isinstance(e, ast.Subscript):
            return self._roots(e.value, s, selfname)
        if isinstance(e, ast.Starred):
            return self._roots(e.value, s, selfname)
        if isinstance(e, ast.IfExp):
            return self._roots(e.body, s, selfname) | self._roots(e.orelse, s, selfname)
        if isinstance(e, ast.BoolOp):
            out = set()
            for v in e.values:
                out |= self._roots(v, s, selfname)
            return out
        if isinstance(e, (ast.Tuple, ast.List)):
            out = set()
            for v in e.elts:
                out |= self._roots(v, s, selfname)
            return out
        if isinstance(e, ast.Call):
            f = e.func
            if isinstance(f, ast.Attribute):
                # self.method() with a return-alias summary
                for ctx2, callee, prefix in self._resolve_callee(e, s, selfname):
                    if prefix == "" and callee is not s.func:
                        return set(self.summary(ctx2, callee).returns_alias)
                if f.attr in VIEW_CALLS or (iterating and f.attr in ("values", "items")):
                    return self._roots(f.value, s, selfname)
                if f.attr in ("copy", "deepcopy", "tolist", "keys"):
                    return set()
            if isinstance(f, ast.Name) and f.id in ("enumerate", "zip", "reversed", "sorted", "list", "tuple", "iter") and iterating:
                out = set()
                for a in e.args:
                    out |= self._roots(a, s, selfname, iterating=True)
                return out
            return set()
        return set()

    # -- static types of an expression (repo classes only)
    def _expr_types(self, e, s, selfname):
        if isinstance(e, ast.Name):
            if selfname and e.id == selfname and s.ctx is not None:
                return [s.ctx]
            return list(s.local_types.get(e.id, ()))
        if isinstance(e, ast.Attribute):
            if selfname and is_self(e.value, selfname):
                return self.field_types(s.ctx, e.attr)
            out = []
            for bt in self._expr_types(e.value, s, selfname):
                r = bt.lookup(e.attr)
                if r and r[0] == "prop":
                    out += self._return_types(bt, r[1].fget)
                else:
                    out += self.field_types(bt, e.attr)
            return out
        if isinstance(e, ast.Call):
            c = self.p.resolve_expr_to_class(s.func.module, e.func)
            if c is not None:
                return [c]
            if isinstance(e.func, ast.Name) and e.func.id in ("deepcopy", "copy") and e.args:
                return self._expr_types(e.args[0], s, selfname)
            if isinstance(e.func, ast.Attribute):
                out = []
                for bt in self._expr_types(e.func.value, s, selfname):
                    m = bt.find_method(e.func.attr)
                    if m is not None:
                        out += self._return_types(bt, m)
                return out
        if isinstance(e, ast.Subscript):
            if isinstance(e.value, ast.Attribute) and selfname and is_self(e.value.value, selfname):
                return self.elem_types(s.ctx, e.value.attr)
        if isinstance(e, ast.IfExp):
            return self._expr_types(e.body, s, selfname) + self._expr_types(e.orelse, s, selfname)
        return []

    def _return_types(self, ctx, func):
        if func is None:
            return []
        spec = self.return_types_spec.get(func.qualname)
        if spec:
            return [self.p.find_class(x) for x in spec]
        return []

    def _iter_elem_types(self, e, s, selfname):
        if isinstance(e, ast.Attribute) and selfname and is_self(e.value, selfname):
            return self.elem_types(s.ctx, e.attr)
        if isinstance(e, ast.Call) and isinstance(e.func, ast.Name) and e.func.id in ("enumerate", "reversed", "list", "sorted") and e.args:
            return self._iter_elem_types(e.args[0], s, selfname)
        return []

    # -- receiver path of an expression relative to self: '' for self, 'a.b' for self.a.b (typed), None otherwise
    def _recv_path(self, e, s, selfname):
        if selfname and is_self(e, selfname):
            return ""
        if isinstance(e, ast.Attribute):
            base = self._recv_path(e.value, s, selfname)
            if base is not None:
                return (base + "." if base else "") + e.attr
        return None

    def _resolve_callee(self, call, s, selfname):
        """-> list of (ctx, FuncInfo, prefix) ; prefix '' = self, 'f.g' = typed field path, None = unrelated object"""
        f = call.func
        out = []
        mod = s.func.module
        if isinstance(f, ast.Name):
            r = self.p.resolve_name(mod, f.id)
            if isinstance(r, FuncInfo):
                out.append((None, r, None))
            elif isinstance(r, ClassInfo):
                init = r.find_method("__init__")
                if init is not None:
                    out.append((r, init, None))
            return out
        if not isinstance(f, ast.Attribute):
            return out
        recv = f.value
        name = f.attr
        # super().m / super(K, self).m
        if isinstance(recv, ast.Call) and isinstance(recv.func, ast.Name) and recv.func.id == "super":
            if s.ctx is None or s.func.cls is None:
                return out
            after = s.func.cls
            if recv.args:
                k = self.p.resolve_expr_to_class(mod, recv.args[0])
                if k is not None:
                    after = k
            if after in s.ctx.mro:
                m = s.ctx.find_method(name, after=after)
                if m is not None:
                    out.append((s.ctx, m, ""))
            return out
        # self.m(...)
        if selfname and is_self(recv, selfname):
            if s.ctx is not None:
                m = s.ctx.find_method(name)
                if m is not None:
                    out.append((s.ctx, m, ""))
            return out
        # K.m(self, ...)   /   K.p.fset(self, v)   / module.func(...)
        k = self.p.resolve_expr_to_class(mod, recv)
        if k is not None:
            m = k.find_method(name)
            if m is not None:
                first_is_self = bool(call.args) and selfname and is_self(call.args[0], selfname)
                if m.kind in ("static", "class"):
                    out.append((k, m, None))
                elif first_is_self and s.ctx is not None:
                    out.append((s.ctx, m, ""))
                else:
                    out.append((k, m, None))
            return out
        if isinstance(recv, ast.Attribute) and name in ("fset", "fget", "fdel"):
            k = self.p.resolve_expr_to_class(mod, recv.value)
            if k is not None:
                pr = k.find_prop(recv.attr)
                if pr is not None:
                    acc = getattr(pr, name)
                    if acc is not None:
                        first_is_self = bool(call.args) and selfname and is_self(call.args[0], selfname)
                        out.append((s.ctx if first_is_self and s.ctx is not None else k, acc, "" if first_is_self else None))
                return out
        m2 = self.p.resolve_expr_to_module(mod, recv)
        if m2 is not None:
            r = self.p.resolve_name(m2, name)
            if isinstance(r, FuncInfo):
                out.append((None, r, None))
            elif isinstance(r, ClassInfo):
                init = r.find_method("__init__")
                if init is not None:
                    out.append((r, init, None))
            return out
        # typed receiver: self.field.m(), local typed var .m()
        types = self._expr_types(recv, s, selfname)
        if types:
            path = self._recv_path(recv, s, selfname)
            if path is None and isinstance(recv, ast.Name):
                roots = s.alias.get(recv.id)
                if roots and len(roots) == 1:
                    path = next(iter(roots))
                elif roots and all("." not in r for r in roots):
                    # local variable standing for one of several fields of self: one target set per field
                    for r in sorted(roots):
                        for t in self.field_types(s.ctx, r):
                            m = t.find_method(name)
                            if m is not None:
                                out.append((t, m, r))
                    if out:
                        return out
            for t in types:
                m = t.find_method(name)
                if m is not None:
                    out.append((t, m, path))
        return out

    def _visit(self, n, s, selfname):
        ctx = s.ctx
        # ---- stores
        if isinstance(n, (ast.Assign, ast.AugAssign, ast.AnnAssign, ast.Delete)):
            targets = n.targets if isinstance(n, (ast.Assign, ast.Delete)) else [n.target]
            for t in targets:
                self._store(t, n, s, selfname, aug=isinstance(n, ast.AugAssign))
        elif isinstance(n, (ast.For, ast.comprehension)):
            pass
        # ---- loads of self attributes / properties
        if isinstance(n, ast.Attribute) and isinstance(n.ctx, ast.Load):
            if selfname and is_self(n.value, selfname) and ctx is not None:
                r = ctx.lookup(n.attr)
                if r and r[0] == "prop":
                    if r[1].fget is not None and r[1].fget is not s.func:
                        s.calls.append(CallSite(n, [(ctx, r[1].fget)], "", "self.%s (getter)" % n.attr))
                elif r and r[0] == "method":
                    pass
                else:
                    s.sites.append(Site("r", n.attr, n, "attr"))
            elif isinstance(n.value, ast.Call) and isinstance(n.value.func, ast.Name) and n.value.func.id == "super" and ctx is not None and s.func.cls is not None:
                after = s.func.cls
                if n.value.args:
                    k = self.p.resolve_expr_to_class(s.func.module, n.value.args[0])
                    if k is not None:
                        after = k
                if after in ctx.mro:
                    r = ctx.lookup(n.attr, after=after)
                    if r and r[0] == "prop" and r[1].fget is not None:
                        s.calls.append(CallSite(n, [(ctx, r[1].fget)], "", "super().%s (getter)" % n.attr))
            else:
                # property load through a typed receiver
                types = self._expr_types(n.value, s, selfname) if not isinstance(n.value, ast.Name) or n.value.id in s.local_types else s.local_types.get(n.value.id, [])
                if types:
                    path = self._recv_path(n.value, s, selfname)
                    tg = []
                    for t in types:
                        r = t.lookup(n.attr)
                        if r and r[0] == "prop" and r[1].fget is not None:
                            tg.append((t, r[1].fget))
                        elif (r is None or r[0] == "const") and path is not None:
                            s.sites.append(Site("r", (path + "." if path else "") + n.attr, n, "attr"))
                    if tg:
                        s.calls.append(CallSite(n, tg, path, "%s.%s (getter)" % (ast.unparse(n.value), n.attr)))
        # ---- calls
        if isinstance(n, ast.Call):
            self.stats["calls"] += 1
            f = n.func
            # mutator call on self field / alias
            if isinstance(f, ast.Attribute) and f.attr in MUTATORS and (n.args or n.keywords or f.attr in ZERO_ARG_MUTATORS):
                roots = self._roots(f.value, s, selfname)
                path = self._recv_path(f.value, s, selfname)
                if roots or (path not in (None, "")):
                    # do not count when the receiver is a typed repo object with that method (e.g. nexus.add)
                    types = self._expr_types(f.value, s, selfname)
                    if not any(t.find_method(f.attr) for t in types):
                        for r in (roots or {path}):
                            s.sites.append(Site("w", r, n, "call-mutator"))
            targets = self._resolve_callee(n, s, selfname)
            if targets:
                self.stats["resolved"] += 1
                prefixes = {p for _, _, p in targets}
                for p in prefixes:
                    tg = [(c, m) for c, m, pp in targets if pp == p]
                    is_ctor = any(m.name == "__init__" and isinstance(self.p.resolve_expr_to_class(s.func.module, n.func), ClassInfo) for _, m in tg)
                    s.calls.append(CallSite(n, tg, p, ast.unparse(n.func), is_ctor=is_ctor))
            else:
                self.stats["opaque"] += 1
                s.opaque_calls.append(n)

    def _store(self, t, stmt, s, selfname, aug=False):
        ctx = s.ctx
        if isinstance(t, (ast.Tuple, ast.List)):
            for e in t.elts:
                self._store(e, stmt, s, selfname, aug)
            return
        if isinstance(t, ast.Starred):
            self._store(t.value, stmt, s, selfname, aug)
            return
        if isinstance(t, ast.Name):
            return
        if isinstance(t, ast.Attribute):
            if selfname and is_self(t.value, selfname):
                r = ctx.lookup(t.attr) if ctx is not None else None
                if r and r[0] == "prop":
                    if r[1].fset is not None:
                        s.calls.append(CallSite(stmt, [(ctx, r[1].fset)], "", "self.%s = (setter)" % t.attr))
                    if aug and r[1].fget is not None:
                        s.calls.append(CallSite(stmt, [(ctx, r[1].fget)], "", "self.%s (getter)" % t.attr))
                    return
                s.sites.append(Site("w", t.attr, stmt, "rebind"))
                return
            # store to attribute of typed receiver / alias
            types = self._expr_types(t.value, s, selfname)
            path = self._recv_path(t.value, s, selfname)
            handled = False
            if types:
                tg = []
                for ty in types:
                    r = ty.lookup(t.attr)
                    if r and r[0] == "prop" and r[1].fset is not None:
                        tg.append((ty, r[1].fset))
                if tg:
                    s.calls.append(CallSite(stmt, tg, path, "%s.%s = (setter)" % (ast.unparse(t.value), t.attr)))
                    handled = True
            if not handled:
                if path is not None:
                    s.sites.append(Site("w", (path + "." if path else "") + t.attr, stmt, "rebind"))
                else:
                    for r in self._roots(t.value, s, selfname):
                        s.sites.append(Site("w", r, stmt, "content"))
            return
        if isinstance(t, ast.Subscript):
            path = self._recv_path(t.value, s, selfname)
            if path:
                s.sites.append(Site("w", path, stmt, "content"))
                return
            for r in self._roots(t.value, s, selfname):
                s.sites.append(Site("w", r, stmt, "content"))
            return

    # ----------------------------------------------------------- transitive closure
    def trans_writes(self, ctx, func, _stack=None):
        """set of field paths (relative to ctx instance) written by func or anything it calls."""
        return self._trans(ctx, func, "w")

    def trans_reads(self, ctx, func):
        return self._trans(ctx, func, "r")

    def _trans(self, ctx, func, kind):
        """kind: 'w' writes, 'r' reads, 'wx' writes not counting anything done inside property getters (read-only by convention)"""
        if kind not in ("w", "r"):
            cache = self.__dict__.setdefault("_trans_" + kind, {})
        else:
            cache = self._trans_w if kind == "w" else self._trans_r
        site_kind = "r" if kind == "r" else "w"
        skip = self._skip_pred(kind)
        key = (id(ctx), id(func))
        if key in cache:
            return cache[key]
        # iterative fixpoint over the reachable call graph
        order = []
        seen = {}
        stack = [(ctx, func)]
        while stack:
            c, f = stack.pop()
            k = (id(c), id(f))
            if k in seen:
                continue
            seen[k] = (c, f)
            order.append(k)
            for cs in self.summary(c, f).calls:
                for c2, f2 in cs.targets:
                    if skip(cs, f2):
                        continue
                    if (id(c2), id(f2)) not in seen:
                        stack.append((c2, f2))
        val = {k: set(cache.get(k, ())) for k in order}
        for k in order:
            c, f = seen[k]
            for st in self.summary(c, f).sites:
                if st.kind == site_kind:
                    val[k].add(st.path)
        changed = True
        while changed:
            changed = False
            for k in order:
                c, f = seen[k]
                for cs in self.summary(c, f).calls:
                    if cs.prefix is None:
                        continue
                    if cs.is_ctor:
                        continue
                    for c2, f2 in cs.targets:
                        if skip(cs, f2):
                            continue
                        sub = val.get((id(c2), id(f2)), cache.get((id(c2), id(f2)), set()))
                        for pth in sub:
                            full = (cs.prefix + "." if cs.prefix else "") + pth
                            if full not in val[k]:
                                val[k].add(full)
                                changed = True
        for k in order:
            cache[k] = val[k]
        return cache[key]

    def _skip_pred(self, kind):
        """call-site filter of a transitive kind: 'wx' skips property getters; custom kinds registered in self.skip_call add their own"""
        custom = self.__dict__.get("skip_call", {}).get(kind)
        if kind in ("w", "r"):
            return lambda cs, f2: False
        if custom is None:
            return lambda cs, f2: f2.kind == "getter"
        return lambda cs, f2: f2.kind == "getter" or custom(cs, f2)

    # ----------------------------------------------------------- per-statement effects
    def node_effects(self, ctx, func, parts, kind="w"):
        """Field paths written/read when the AST parts (of one CFG node) execute, incl. transitive callee effects."""
        s = self.summary(ctx, func)
        ids = set()
        for part in parts:
            for n in walk_no_nested(part):
                ids.add(id(n))
        out = set()
        site_kind = "r" if kind == "r" else "w"
        skip = self._skip_pred(kind)
        for st in s.sites:
            if st.kind == site_kind and id(st.node) in ids:
                out.add(st.path)
        for cs in s.calls:
            if id(cs.node) in ids and cs.prefix is not None and not cs.is_ctor:
                for c2, f2 in cs.targets:
                    if skip(cs, f2):
                        continue
                    for pth in self._trans(c2, f2, kind):
                        out.add((cs.prefix + "." if cs.prefix else "") + pth)
        return out

    def calls_in(self, ctx, func, parts):
        s = self.summary(ctx, func)
        ids = set()
        for part in parts:
            for n in walk_no_nested(part):
                ids.add(id(n))
        return [cs for cs in s.calls if id(cs.node) in ids]

    def reaches_call(self, ctx, func, pred, _seen=None, depth=0, same_object_only=False):
        """Does func (transitively through resolved calls) contain a call site whose any target satisfies pred(ctx2, f2)?"""
        _seen = _seen if _seen is not None else set()
        k = (id(ctx), id(func))
        if k in _seen:
            return False
        _seen.add(k)
        for cs in self.summary(ctx, func).calls:
            if same_object_only and cs.prefix != "":
                continue
            for c2, f2 in cs.targets:
                if pred(c2, f2):
                    return True
                if self.reaches_call(c2, f2, pred, _seen, depth + 1, same_object_only):
                    return True
        return False


def public_entry_points(cls):
    """Public methods and property setters visible on an instance of cls (first definition in the MRO)."""
    out = []
    for name, obj in sorted(cls.all_methods().items()):
        if name.startswith("_"):
            continue
        if isinstance(obj, PropInfo):
            if obj.fset is not None:
                out.append(obj.fset)
        elif isinstance(obj, FuncInfo):
            if obj.kind == "method":
                out.append(obj)
    return out
