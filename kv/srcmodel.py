"""Parsed program model: modules, imports, classes (C3 MRO), methods, properties, constants.

Everything here is computed from the *source text* under <root>/kafe2 on every run.
"""
import ast
import hashlib
import os


class AnalysisError(Exception):
    """The checker cannot do its job (anchor vanished, construct not understood) -> exit 2."""


class FuncInfo:
    __slots__ = ("name", "cls", "module", "node", "kind", "prop")

    def __init__(self, name, cls, module, node, kind, prop=None):
        self.name = name
        self.cls = cls  # ClassInfo or None
        self.module = module
        self.node = node
        self.kind = kind  # method | static | class | function | getter | setter | deleter
        self.prop = prop  # property name for getter/setter

    @property
    def qualname(self):
        base = self.name
        if self.kind == "setter":
            base = self.prop + ".fset"
        elif self.kind == "getter":
            base = self.prop + ".fget"
        elif self.kind == "deleter":
            base = self.prop + ".fdel"
        return (self.cls.name + "." + base) if self.cls else base

    @property
    def file(self):
        return self.module.relpath

    @property
    def lineno(self):
        return self.node.lineno

    def params(self):
        a = self.node.args
        return [x.arg for x in a.posonlyargs + a.args]

    def all_params(self):
        a = self.node.args
        out = [x.arg for x in a.posonlyargs + a.args]
        if a.vararg:
            out.append("*" + a.vararg.arg)
        out += [x.arg for x in a.kwonlyargs]
        if a.kwarg:
            out.append("**" + a.kwarg.arg)
        return out

    def defaults_map(self):
        a = self.node.args
        pos = a.posonlyargs + a.args
        out = {}
        for p, d in zip(pos[len(pos) - len(a.defaults):], a.defaults):
            out[p.arg] = d
        for p, d in zip(a.kwonlyargs, a.kw_defaults):
            if d is not None:
                out[p.arg] = d
        return out

    def __repr__(self):
        return "<Func %s @%s:%s>" % (self.qualname, self.file, self.lineno)


class PropInfo:
    __slots__ = ("name", "fget", "fset", "fdel")

    def __init__(self, name, fget=None, fset=None, fdel=None):
        self.name = name
        self.fget = fget
        self.fset = fset
        self.fdel = fdel


class ClassInfo:
    def __init__(self, name, module, node):
        self.name = name
        self.module = module
        self.node = node
        self.base_exprs = list(node.bases)
        self.bases = []  # resolved ClassInfo (repo classes only)
        self.mro = []
        self.methods = {}  # own: name -> FuncInfo
        self.props = {}  # own: name -> PropInfo
        self.consts = {}  # own: name -> ast expr
        self.subclasses = []

    @property
    def file(self):
        return self.module.relpath

    def __repr__(self):
        return "<Class %s.%s>" % (self.module.name, self.name)

    # ---- lookups through the MRO
    def lookup(self, name, after=None):
        """Return ('method', FuncInfo) | ('prop', PropInfo) | ('const', expr, owner) | None for attribute `name`."""
        mro = self.mro
        if after is not None:
            mro = mro[mro.index(after) + 1:]
        for k in mro:
            if name in k.methods:
                return ("method", k.methods[name])
            if name in k.props:
                return ("prop", k.props[name])
            if name in k.consts:
                return ("const", k.consts[name], k)
        return None

    def find_method(self, name, after=None):
        r = self.lookup(name, after)
        if r and r[0] == "method":
            return r[1]
        return None

    def find_prop(self, name, after=None):
        r = self.lookup(name, after)
        if r and r[0] == "prop":
            return r[1]
        return None

    def const_value(self, name):
        """literal value of a class constant found through the MRO, else raises KeyError."""
        r = self.lookup(name)
        if r and r[0] == "const":
            return ast.literal_eval(r[1])
        raise KeyError(name)

    def is_subclass_of(self, other):
        return other in self.mro

    def all_methods(self):
        """name -> FuncInfo/PropInfo as seen on an instance (first definition in the MRO)."""
        out = {}
        for k in reversed(self.mro):
            for n, f in k.methods.items():
                out[n] = f
            for n, p in k.props.items():
                out[n] = p
        return out

    def concrete_leafs(self):
        out = []
        stack = [self]
        seen = set()
        while stack:
            c = stack.pop()
            if id(c) in seen:
                continue
            seen.add(id(c))
            out.append(c)
            stack.extend(c.subclasses)
        return out


class Module:
    def __init__(self, name, path, relpath, source):
        self.name = name
        self.path = path
        self.relpath = relpath
        self.source = source
        self.tree = ast.parse(source, filename=relpath)
        self.is_package = os.path.basename(path) == "__init__.py"
        self.imports = {}  # local name -> (module dotted, attr or None)
        self.star_imports = []  # module dotted
        self.classes = {}
        self.functions = {}
        self.consts = {}
        self.all = None

    @property
    def package(self):
        return self.name if self.is_package else self.name.rpartition(".")[0]

    def __repr__(self):
        return "<Module %s>" % self.name


def _decorator_names(node):
    out = []
    for d in node.decorator_list:
        try:
            out.append(ast.unparse(d))
        except Exception:  # pragma: no cover
            out.append("?")
    return out


def _apply_wrapping_decorators(module, fn):
    """A method decorated with a module-level decorator of the usual closure form (`def deco(method): def wrapper(self, ...): <pre>; return method(self, ...)`)
    is analysed as the statements the wrapper runs before the call, followed by the method's own body (and the statements after the call, if any): what the
    wrapper writes before it calls the method is written before the method validates anything."""
    import copy

    out = fn
    for d in reversed(fn.decorator_list):
        if not isinstance(d, ast.Name):
            continue
        deco = next((x for x in module.tree.body if isinstance(x, ast.FunctionDef) and x.name == d.id), None)
        if deco is None or not deco.args.args:
            continue
        mparam = deco.args.args[0].arg
        inner = [x for x in deco.body if isinstance(x, ast.FunctionDef)]
        rets = [x for x in deco.body if isinstance(x, ast.Return) and isinstance(x.value, ast.Name)]
        if len(inner) != 1 or not rets or rets[-1].value.id != inner[0].name or not inner[0].args.args:
            continue
        w = inner[0]
        wself = w.args.args[0].arg
        idx = None
        for i, st in enumerate(w.body):
            if any(isinstance(c, ast.Call) and isinstance(c.func, ast.Name) and c.func.id == mparam for c in ast.walk(st)):
                idx = i
                break
        if idx is None:
            continue
        mself = out.args.args[0].arg if out.args.args else wself

        class Ren(ast.NodeTransformer):
            def visit_Name(self, n):
                if n.id == wself:
                    return ast.copy_location(ast.Name(id=mself, ctx=n.ctx), n)
                return n

        pre = [Ren().visit(copy.deepcopy(x)) for x in w.body[:idx]]
        post = [] if isinstance(w.body[idx], ast.Return) else [Ren().visit(copy.deepcopy(x)) for x in w.body[idx + 1:] if not isinstance(x, ast.Return)]
        new = copy.copy(out)
        new.body = pre + list(out.body) + post
        out = new
    return out


class Program:
    def __init__(self, root, package="kafe2", exclude=("kafe2/test",), overrides=None):
        """overrides: {relative path: source text} analysed instead of the file on disk (mutant self-test only)."""
        overrides = overrides or {}
        self.root = os.path.abspath(root)
        self.package = package
        self.modules = {}
        self.files = []
        self._digest = hashlib.sha256()
        pkg_dir = os.path.join(self.root, package)
        if not os.path.isdir(pkg_dir):
            raise AnalysisError("package directory %s not found" % pkg_dir)
        for dirpath, dirnames, filenames in os.walk(pkg_dir):
            dirnames.sort()
            rel_dir = os.path.relpath(dirpath, self.root)
            if any(rel_dir == e or rel_dir.startswith(e + os.sep) for e in exclude):
                dirnames[:] = []
                continue
            for fn in sorted(filenames):
                if not fn.endswith(".py"):
                    continue
                path = os.path.join(dirpath, fn)
                rel = os.path.relpath(path, self.root)
                if rel in overrides:
                    src = overrides[rel]
                else:
                    with open(path, "r", encoding="utf8") as f:
                        src = f.read()
                self._digest.update(rel.encode() + b"\0" + src.encode() + b"\0")
                parts = rel[:-3].split(os.sep)
                if parts[-1] == "__init__":
                    parts = parts[:-1]
                name = ".".join(parts)
                try:
                    m = Module(name, path, rel, src)
                except SyntaxError as e:
                    raise AnalysisError("cannot parse %s: %s" % (rel, e))
                self.modules[name] = m
                self.files.append(rel)
        for m in self.modules.values():
            self._index_module(m)
        for m in self.modules.values():
            for c in m.classes.values():
                self._resolve_bases(c)
        for m in self.modules.values():
            for c in m.classes.values():
                c.mro = self._c3(c)
        for m in self.modules.values():
            for c in m.classes.values():
                self._index_class_body(c)

    @property
    def digest(self):
        return self._digest.hexdigest()

    # ---------------------------------------------------------------- indexing
    def _index_module(self, m):
        def visit_body(body):
            for st in body:
                if isinstance(st, ast.Import):
                    for a in st.names:
                        m.imports[a.asname or a.name.split(".")[0]] = (a.name if a.asname else a.name.split(".")[0], None)
                elif isinstance(st, ast.ImportFrom):
                    if st.level:
                        base = m.package.split(".")
                        if st.level > 1:
                            base = base[: len(base) - (st.level - 1)]
                        target = ".".join(base + ([st.module] if st.module else []))
                    else:
                        target = st.module
                    for a in st.names:
                        if a.name == "*":
                            m.star_imports.append(target)
                        else:
                            m.imports[a.asname or a.name] = (target, a.name)
                elif isinstance(st, ast.ClassDef):
                    m.classes[st.name] = ClassInfo(st.name, m, st)
                elif isinstance(st, (ast.FunctionDef, ast.AsyncFunctionDef)):
                    m.functions[st.name] = FuncInfo(st.name, None, m, st, "function")
                elif isinstance(st, ast.Assign):
                    for t in st.targets:
                        if isinstance(t, ast.Name):
                            m.consts[t.id] = st.value
                            if t.id == "__all__":
                                try:
                                    m.all = list(ast.literal_eval(st.value))
                                except Exception:
                                    m.all = None
                elif isinstance(st, (ast.Try,)):
                    visit_body(st.body)
                    for h in st.handlers:
                        visit_body(h.body)
                    visit_body(st.orelse)
                elif isinstance(st, ast.If):
                    visit_body(st.body)
                    visit_body(st.orelse)

        visit_body(m.tree.body)

    def resolve_name(self, module, name, _seen=None):
        """Resolve a bare name used in `module` to ClassInfo | FuncInfo | Module | ('const', expr, module) | None."""
        _seen = _seen or set()
        key = (module.name, name)
        if key in _seen:
            return None
        _seen.add(key)
        if name in module.classes:
            return module.classes[name]
        if name in module.functions:
            return module.functions[name]
        if name in module.imports:
            target, attr = module.imports[name]
            if attr is None:
                return self.modules.get(target)
            sub = self.modules.get(target + "." + attr)
            tm = self.modules.get(target)
            if tm is not None:
                r = self.resolve_name(tm, attr, _seen)
                if r is not None:
                    return r
            if sub is not None:
                return sub
            return None
        if name in module.consts:
            return ("const", module.consts[name], module)
        for target in module.star_imports:
            tm = self.modules.get(target)
            if tm is None:
                continue
            if tm.all is not None and name not in tm.all and not tm.is_package:
                continue
            r = self.resolve_name(tm, name, _seen)
            if r is not None:
                return r
        return None

    def resolve_expr_to_class(self, module, expr):
        """Name or dotted attribute -> ClassInfo (repo classes only)."""
        if isinstance(expr, ast.Name):
            r = self.resolve_name(module, expr.id)
            return r if isinstance(r, ClassInfo) else None
        if isinstance(expr, ast.Attribute):
            base = self.resolve_expr_to_module(module, expr.value)
            if base is not None:
                r = self.resolve_name(base, expr.attr)
                return r if isinstance(r, ClassInfo) else None
        return None

    def resolve_expr_to_module(self, module, expr):
        if isinstance(expr, ast.Name):
            r = self.resolve_name(module, expr.id)
            return r if isinstance(r, Module) else None
        if isinstance(expr, ast.Attribute):
            base = self.resolve_expr_to_module(module, expr.value)
            if base is not None:
                r = self.modules.get(base.name + "." + expr.attr) or self.resolve_name(base, expr.attr)
                return r if isinstance(r, Module) else None
        return None

    def _resolve_bases(self, c):
        for b in c.base_exprs:
            k = self.resolve_expr_to_class(c.module, b)
            if k is not None:
                c.bases.append(k)
                k.subclasses.append(c)

    def _c3(self, c, _stack=()):
        if c in _stack:
            raise AnalysisError("inheritance cycle at %s" % c.name)
        seqs = [self._c3(b, _stack + (c,)) for b in c.bases] + [list(c.bases)]
        res = [c]
        seqs = [list(s) for s in seqs if s]
        while seqs:
            for s in seqs:
                cand = s[0]
                if not any(cand in t[1:] for t in seqs):
                    break
            else:
                raise AnalysisError("inconsistent MRO for %s" % c.name)
            res.append(cand)
            for s in seqs:
                if s and s[0] is cand:
                    del s[0]
            seqs = [s for s in seqs if s]
        return res

    def _index_class_body(self, c):
        for st in c.node.body:
            if isinstance(st, (ast.FunctionDef, ast.AsyncFunctionDef)):
                decs = _decorator_names(st)
                if "property" in decs or any(d.endswith("abstractproperty") for d in decs):
                    f = FuncInfo(st.name, c, c.module, st, "getter", prop=st.name)
                    p = c.props.get(st.name) or PropInfo(st.name)
                    p.fget = f
                    c.props[st.name] = p
                    continue
                handled = False
                for d in decs:
                    if d.endswith(".setter") or d.endswith(".getter") or d.endswith(".deleter"):
                        base, _, what = d.rpartition(".")
                        parts = base.split(".")
                        pname = parts[-1]
                        kind = what
                        f = FuncInfo(st.name, c, c.module, st, kind, prop=st.name)
                        if len(parts) == 1:
                            p = c.props.get(pname)
                            if p is None:
                                raise AnalysisError("setter for unknown property %s.%s" % (c.name, pname))
                            if st.name != pname:
                                p = PropInfo(st.name, p.fget, p.fset, p.fdel)
                        else:
                            owner = self.resolve_expr_to_class(c.module, ast.parse(".".join(parts[:-1]), mode="eval").body)
                            if owner is None:
                                raise AnalysisError("cannot resolve property owner in decorator %s of %s.%s" % (d, c.name, st.name))
                            bp = owner.find_prop(pname)
                            if bp is None:
                                raise AnalysisError("decorator %s: %s has no property %s" % (d, owner.name, pname))
                            p = PropInfo(st.name, bp.fget, bp.fset, bp.fdel)
                        setattr(p, {"setter": "fset", "getter": "fget", "deleter": "fdel"}[kind], f)
                        c.props[st.name] = p
                        handled = True
                        break
                if handled:
                    continue
                kind = "method"
                if "staticmethod" in decs:
                    kind = "static"
                elif "classmethod" in decs:
                    kind = "class"
                c.methods[st.name] = FuncInfo(st.name, c, c.module, _apply_wrapping_decorators(c.module, st), kind)
            elif isinstance(st, ast.Assign):
                for t in st.targets:
                    if isinstance(t, ast.Name):
                        c.consts[t.id] = st.value
            elif isinstance(st, ast.AnnAssign) and isinstance(st.target, ast.Name) and st.value is not None:
                c.consts[st.target.id] = st.value

    # ---------------------------------------------------------------- queries
    def module(self, dotted):
        m = self.modules.get(dotted)
        if m is None:
            raise AnalysisError("anchor module %s not found" % dotted)
        return m

    def cls(self, dotted_module, name):
        m = self.module(dotted_module)
        c = m.classes.get(name)
        if c is None:
            raise AnalysisError("anchor class %s.%s not found" % (dotted_module, name))
        return c

    def find_class(self, name):
        """Unique class by bare name across the package."""
        hits = [c for m in self.modules.values() for c in m.classes.values() if c.name == name]
        if not hits:
            raise AnalysisError("anchor class %s not found" % name)
        if len(hits) > 1:
            raise AnalysisError("class name %s is ambiguous: %s" % (name, hits))
        return hits[0]

    def all_classes(self):
        for m in self.modules.values():
            for c in m.classes.values():
                yield c

    def all_functions(self):
        """Every FuncInfo in the package (module functions, methods, property accessors)."""
        for m in self.modules.values():
            for f in m.functions.values():
                yield f
            for c in m.classes.values():
                for f in c.methods.values():
                    yield f
                for p in c.props.values():
                    for f in (p.fget, p.fset, p.fdel):
                        if f is not None and f.cls is c:
                            yield f

    def method(self, cls, name):
        f = cls.find_method(name)
        if f is None:
            raise AnalysisError("anchor method %s.%s not found" % (cls.name, name))
        return f

    def prop(self, cls, name):
        p = cls.find_prop(name)
        if p is None:
            raise AnalysisError("anchor property %s.%s not found" % (cls.name, name))
        return p


def norm_stmt(node):
    """Normalised statement text (keying findings by construct, not by line)."""
    try:
        s = ast.unparse(node)
    except Exception:  # pragma: no cover
        s = ast.dump(node)
    return " ".join(s.split())[:200]
