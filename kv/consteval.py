"""Constant-propagating evaluator for the table-building code of kafe2 (no repo object ever exists):

  * nexus_model(fit class): abstractly interprets FitBase._init_nexus / _init_cost_function (+ overrides, through super())
    and records every graph operation with its constant node names -> static Nexus graph of that fit class.
  * cost_model(cost class, kwargs): interprets the CostFunction* constructors for one configuration -> handle name,
    wired argument names, flags.

Supported subset: assignments, for-loops over literal / class-constant tuples (unrolled), if/elif/else and conditional
expressions on constants (both arms explored when the test is not constant), string +, "_".join, %, comparison of
constants, list literals / append / +=, attribute reads of self constants. Everything else is Unknown.
"""
import ast

from .srcmodel import AnalysisError, ClassInfo


class Unknown:
    def __init__(self, why=""):
        self.why = why

    def __repr__(self):
        return "?%s" % self.why

    def __bool__(self):
        raise TypeError("truth value of Unknown")


def is_unknown(v):
    return isinstance(v, Unknown)


class Graph:
    def __init__(self):
        self.nodes = {}  # name -> dict(kind=..., params=[...], src=...)
        self.deps = {}  # name -> set(names) (function parameters + explicit dependencies + alias target)
        self.ops = []  # operations with non-constant names (dynamic parameter nodes etc.)
        self.where = {}  # name -> (file, line)

    def add(self, name, kind, params=(), where=None, **kw):
        self.nodes[name] = dict(kind=kind, params=list(params), **kw)
        self.deps[name] = set(params)
        if where:
            self.where[name] = where

    def dep(self, name, on):
        self.deps.setdefault(name, set()).update(on)

    def dependents_closure(self, names):
        """names plus every node that (transitively) depends on one of them"""
        out = set(names)
        changed = True
        while changed:
            changed = False
            for n, ds in self.deps.items():
                if n not in out and ds & out:
                    out.add(n)
                    changed = True
        return out

    def depends_closure(self, name):
        out = set()
        stack = [name]
        while stack:
            x = stack.pop()
            for d in self.deps.get(x, ()):
                if d not in out:
                    out.add(d)
                    stack.append(d)
        return out


class Evaluator:
    """Evaluates methods of class `ctx` with `self` = abstract instance whose attributes are class constants or values in self.fields."""

    def __init__(self, program, ctx, fields=None):
        self.p = program
        self.ctx = ctx
        self.fields = dict(fields or {})
        self.graph = Graph()
        self.trace = []

    # ------------------------------------------------------------------ statements
    def run_method(self, name, args=None, after=None):
        f = self.ctx.find_method(name, after=after)
        if f is None:
            raise AnalysisError("consteval: %s has no method %s" % (self.ctx.name, name))
        env = dict(args or {})
        # defaults
        for k, d in f.defaults_map().items():
            if k not in env:
                env[k] = self.ev(d, {}, f)
        return self.block(f.node.body, env, f)

    def block(self, body, env, f):
        for st in body:
            r = self.stmt(st, env, f)
            if r is not None and r[0] == "return":
                return r
        return None

    def stmt(self, st, env, f):
        if isinstance(st, ast.Expr):
            self.ev(st.value, env, f)
        elif isinstance(st, ast.Assign):
            v = self.ev(st.value, env, f)
            for t in st.targets:
                self.assign(t, v, env, f)
        elif isinstance(st, ast.AugAssign):
            cur = self.ev(st.target, env, f)
            v = self.ev(st.value, env, f)
            if isinstance(st.op, ast.Add) and not is_unknown(cur) and not is_unknown(v):
                try:
                    nv = cur + v
                except Exception:
                    nv = Unknown("augadd")
            else:
                nv = Unknown("aug")
            self.assign(st.target, nv, env, f)
        elif isinstance(st, ast.For):
            it = self.ev(st.iter, env, f)
            if isinstance(it, (tuple, list)) and isinstance(st.target, ast.Name) and not any(is_unknown(x) for x in it):
                for x in it:
                    env[st.target.id] = x
                    self.block(st.body, env, f)
            else:
                self.graph.ops.append(("loop over non-constant", f.qualname, st.lineno))
        elif isinstance(st, ast.If):
            t = self.ev(st.test, env, f)
            if is_unknown(t):
                self.block(st.body, env, f)
                self.block(st.orelse, env, f)
            elif t:
                return self.block(st.body, env, f)
            else:
                return self.block(st.orelse, env, f)
        elif isinstance(st, ast.Try):
            r = self.block(st.body, env, f)
            if r is not None:
                return r
        elif isinstance(st, ast.Return):
            return ("return", self.ev(st.value, env, f) if st.value is not None else None)
        elif isinstance(st, (ast.Pass, ast.Raise, ast.Assert, ast.Import, ast.ImportFrom, ast.FunctionDef)):
            pass
        else:
            self.trace.append("unhandled statement %s at %s:%s" % (type(st).__name__, f.file, st.lineno))
        return None

    def assign(self, t, v, env, f):
        if isinstance(t, ast.Name):
            env[t.id] = v
        elif isinstance(t, ast.Attribute) and isinstance(t.value, ast.Name) and t.value.id == "self":
            self.fields[t.attr] = v
        elif isinstance(t, (ast.Tuple, ast.List)):
            if isinstance(v, (tuple, list)) and len(v) == len(t.elts):
                for e, x in zip(t.elts, v):
                    self.assign(e, x, env, f)
            else:
                for e in t.elts:
                    self.assign(e, Unknown("unpack"), env, f)

    # ------------------------------------------------------------------ expressions
    def self_attr(self, name):
        if name in self.fields:
            return self.fields[name]
        r = self.ctx.lookup(name)
        if r and r[0] == "const":
            try:
                return ast.literal_eval(r[1])
            except Exception:
                return Unknown("const:" + name)
        if r and r[0] == "prop":
            return ("property", name)
        if r and r[0] == "method":
            return ("method", r[1].qualname, name)
        return Unknown("self." + name)

    def ev(self, e, env, f):
        if e is None:
            return None
        if isinstance(e, ast.Constant):
            return e.value
        if isinstance(e, ast.Name):
            return env.get(e.id, Unknown(e.id))
        if isinstance(e, ast.Tuple):
            return tuple(self.ev(x, env, f) for x in e.elts)
        if isinstance(e, ast.List):
            return [self.ev(x, env, f) for x in e.elts]
        if isinstance(e, ast.IfExp):
            t = self.ev(e.test, env, f)
            if is_unknown(t):
                return Unknown("ifexp")
            return self.ev(e.body if t else e.orelse, env, f)
        if isinstance(e, ast.BinOp):
            a, b = self.ev(e.left, env, f), self.ev(e.right, env, f)
            if is_unknown(a) or is_unknown(b):
                return Unknown("binop")
            try:
                if isinstance(e.op, ast.Add):
                    return a + b
                if isinstance(e.op, ast.Mod):
                    return a % b
            except Exception:
                pass
            return Unknown("binop")
        if isinstance(e, ast.BoolOp):
            vals = [self.ev(v, env, f) for v in e.values]
            if any(is_unknown(v) for v in vals):
                return Unknown("boolop")
            if isinstance(e.op, ast.Or):
                for v in vals:
                    if v:
                        return v
                return vals[-1]
            for v in vals:
                if not v:
                    return v
            return vals[-1]
        if isinstance(e, ast.UnaryOp) and isinstance(e.op, ast.Not):
            v = self.ev(e.operand, env, f)
            return Unknown("not") if is_unknown(v) else (not v)
        if isinstance(e, ast.Compare) and len(e.ops) == 1:
            a, b = self.ev(e.left, env, f), self.ev(e.comparators[0], env, f)
            if is_unknown(a) or is_unknown(b):
                return Unknown("cmp")
            op = e.ops[0]
            try:
                return {ast.Eq: lambda: a == b, ast.NotEq: lambda: a != b, ast.Is: lambda: a is b, ast.IsNot: lambda: a is not b,
                        ast.In: lambda: a in b, ast.NotIn: lambda: a not in b}[type(op)]()
            except Exception:
                return Unknown("cmp")
        if isinstance(e, ast.Attribute):
            if isinstance(e.value, ast.Name) and e.value.id == "self":
                return self.self_attr(e.attr)
            base = self.ev(e.value, env, f)
            if isinstance(base, tuple) and base and base[0] == "object":
                return base[1].get(e.attr, Unknown("attr:" + e.attr))
            return Unknown(ast.unparse(e))
        if isinstance(e, ast.Lambda):
            return ("lambda", ast.unparse(e), [a.arg for a in e.args.args], e)
        if isinstance(e, ast.Call):
            return self.call(e, env, f)
        if isinstance(e, ast.JoinedStr):
            parts = []
            for v in e.values:
                if isinstance(v, ast.Constant):
                    parts.append(str(v.value))
                else:
                    x = self.ev(v.value, env, f)
                    if is_unknown(x):
                        return Unknown("fstring")
                    parts.append(str(x))
            return "".join(parts)
        return Unknown(type(e).__name__)

    _SIGS = None

    def signature_of(self, e):
        """parameter names of the callee of call `e`, if every function of that name in the program (or the constructor of the class of that name) has the same ones"""
        if Evaluator._SIGS is None or Evaluator._SIGS[0] is not self.p:
            table = {}
            for fn in self.p.all_functions():
                ps = fn.params()
                if fn.cls is not None and fn.kind not in ("static",):
                    ps = ps[1:]
                table.setdefault(fn.name, set()).add(tuple(ps))
            for c in self.p.all_classes():
                m = c.find_method("__init__")
                if m is not None and hasattr(m, "params"):
                    table.setdefault(c.name, set()).add(tuple(m.params()[1:]))
            Evaluator._SIGS = (self.p, table)
        fn = e.func
        name = fn.attr if isinstance(fn, ast.Attribute) else (fn.id if isinstance(fn, ast.Name) else None)
        sigs = Evaluator._SIGS[1].get(name, set())
        return list(next(iter(sigs))) if len(sigs) == 1 else None

    def kwargs(self, e, env, f):
        """keyword arguments of a call, including positional ones whose parameter name is known (the canonical program passes arguments by position where it can)"""
        out = {}
        sig = self.signature_of(e) if e.args else None
        if sig and not any(isinstance(a, ast.Starred) for a in e.args):
            for name, a in zip(sig, e.args):
                out[name] = self.ev(a, env, f)
        for k in e.keywords:
            if k.arg:
                out[k.arg] = self.ev(k.value, env, f)
            else:   # `**mapping`: a mapping the evaluator knows (a `**kwargs` parameter bound by call_method, a dict built in __init__)
                v = self.ev(k.value, env, f)
                if isinstance(v, dict):
                    out.update(v)
        return out

    def call(self, e, env, f):
        fn = e.func
        src = ast.unparse(fn)
        if isinstance(fn, ast.Attribute):
            if fn.attr == "join" and isinstance(fn.value, ast.Constant):
                a = self.ev(e.args[0], env, f)
                if isinstance(a, (tuple, list)) and not any(is_unknown(x) for x in a):
                    return fn.value.value.join(a)
                return Unknown("join")
            if fn.attr == "lower":
                v = self.ev(fn.value, env, f)
                return v.lower() if isinstance(v, str) else Unknown("lower")
            if fn.attr == "format":
                v = self.ev(fn.value, env, f)
                args = [self.ev(a, env, f) for a in e.args]
                if isinstance(v, str) and not any(is_unknown(a) for a in args):
                    try:
                        return v.format(*args)
                    except Exception:
                        return Unknown("format")
                return Unknown("format")
            if fn.attr == "append" and isinstance(fn.value, ast.Name):
                lst = env.get(fn.value.id)
                if isinstance(lst, list):
                    lst.append(self.ev(e.args[0], env, f))
                return None
            # super().method(...)
            if isinstance(fn.value, ast.Call) and isinstance(fn.value.func, ast.Name) and fn.value.func.id == "super":
                after = f.cls
                if fn.value.args:
                    k = self.p.resolve_expr_to_class(f.module, fn.value.args[0])
                    if k is not None:
                        after = k
                return self.call_method(fn.attr, e, env, f, after=after)
            if isinstance(fn.value, ast.Name) and fn.value.id == "self":
                return self.self_call(fn.attr, e, env, f)
        h = self.hook(src, e, env, f)
        if h is not NotImplemented:
            return h
        return Unknown("call:" + src)

    def self_call(self, name, e, env, f):
        h = self.hook("self." + name, e, env, f)
        if h is not NotImplemented:
            return h
        return Unknown("call:self." + name)

    def call_method(self, name, e, env, f, after=None):
        m = self.ctx.find_method(name, after=after)
        if m is None:
            return Unknown("nomethod:" + name)
        params = [p for p in m.params() if p != "self"]
        args = {}
        for p_, a in zip(params, e.args):
            args[p_] = self.ev(a, env, f)
        rest = {}
        for k in e.keywords:
            if k.arg:
                (args if k.arg in params else rest)[k.arg] = self.ev(k.value, env, f)
        if m.node.args.kwarg is not None:
            args[m.node.args.kwarg.arg] = rest
        else:
            args.update(rest)
        for k, d in m.defaults_map().items():
            if k not in args:
                args[k] = self.ev(d, {}, m)
        r = self.block(m.node.body, args, m)
        return r[1] if r else None

    def hook(self, src, e, env, f):
        return NotImplemented


# ---------------------------------------------------------------------------------------------------------- nexus model
class NexusEvaluator(Evaluator):
    def __init__(self, program, ctx, cost_flags=None):
        super().__init__(program, ctx)
        self.cost_flags = cost_flags or {}

    def where(self, e, f):
        return (f.file, e.lineno)

    def hook(self, src, e, env, f):
        g = self.graph
        if src == "self._add_property_to_nexus":
            k = self.kwargs(e, env, f)
            prop = self.ev(e.args[0], env, f) if e.args else k.get("prop")
            name = k.get("name") or prop
            if is_unknown(name) or not isinstance(name, str):
                raise AnalysisError("consteval: non-constant property node name at %s:%s" % (f.file, e.lineno))
            g.add(name, "property", (), where=self.where(e, f), prop=prop)
            d = k.get("depends_on")
            if d is not None:
                g.dep(name, [d] if isinstance(d, str) else list(d))
            return ("node", name)
        if src == "self._nexus.add_function":
            k = self.kwargs(e, env, f)
            fn = self.ev(e.args[0], env, f) if e.args else k.get("func")
            name = k.get("func_name")
            pn = k.get("par_names")
            if name is None and isinstance(fn, tuple) and fn and fn[0] == "localfunc":
                name = fn[1]
                if pn is None:
                    pn = fn[2]
            if name is None or is_unknown(name):
                # name taken from an object (cost function name): recorded as dynamic
                g.ops.append(("add_function with dynamic name", ast.unparse(e)[:90], f.file, e.lineno))
                return Unknown("node")
            if is_unknown(pn) or pn is None:
                pn = ["<dynamic>"]
            kind = "function"
            extra = {}
            if isinstance(fn, tuple) and fn and fn[0] == "lambda":
                extra["lambda"] = fn[1]
                # lambda: self.<prop>  -> property node in disguise
                body = fn[3].body
                if not fn[2] and isinstance(body, ast.Attribute) and isinstance(body.value, ast.Name) and body.value.id == "self":
                    kind = "property"
                    extra["prop"] = body.attr
            elif isinstance(fn, tuple) and fn and fn[0] == "method":
                extra["method"] = fn[2]
            else:
                extra["func"] = ast.unparse(e.args[0] if e.args else [kw.value for kw in e.keywords if kw.arg == "func"][0])
            g.add(name, kind, [x for x in pn if isinstance(x, str)], where=self.where(e, f), **extra)
            return ("node", name)
        if src == "self._nexus.add_alias":
            k = self.kwargs(e, env, f)
            name = self.ev(e.args[0], env, f) if e.args else k.get("name")
            tgt = k.get("alias_for") if "alias_for" in k else (self.ev(e.args[1], env, f) if len(e.args) > 1 else None)
            if is_unknown(name) or is_unknown(tgt) or name is None:
                g.ops.append(("add_alias with dynamic name", ast.unparse(e)[:90], f.file, e.lineno))
                return Unknown("node")
            g.add(name, "alias", [tgt], where=self.where(e, f))
            return ("node", name)
        if src == "self._nexus.add_dependency":
            k = self.kwargs(e, env, f)
            a = [self.ev(x, env, f) for x in e.args]
            name = a[0] if a else k.get("name")
            d = k.get("depends_on", a[1] if len(a) > 1 else None)
            if is_unknown(name) or is_unknown(d):
                raise AnalysisError("consteval: non-constant dependency at %s:%s" % (f.file, e.lineno))
            g.dep(name, [d] if isinstance(d, str) else list(d))
            return None
        if src == "self._nexus.add":
            inner = e.args[0] if e.args else None
            if isinstance(inner, ast.Call):
                ik = self.kwargs(inner, env, f)
                name = ik.get("name")
                if isinstance(name, str):
                    g.add(name, ast.unparse(inner.func), ["<fit parameters>"] if name == "parameter_values" else [], where=self.where(e, f))
                    return ("node", name)
            g.ops.append(("add with dynamic node", ast.unparse(e)[:90], f.file, e.lineno))
            return Unknown("node")
        if src == "self._init_cost_function":
            self.call_method("_init_cost_function", e, env, f)
            return None
        if src in ("Nexus",):
            return ("object", {})
        return NotImplemented

    def self_attr(self, name):
        if name == "_cost_function":
            return ("object", dict(self.cost_flags, arg_names=Unknown("arg_names"), name=Unknown("cost name")))
        if name == "_cost_function_pointwise":
            return Unknown("pointwise cost")
        if name == "_model_function":
            return ("object", {"name": Unknown("model function name"), "defaults_dict": Unknown("defaults")})
        return super().self_attr(name)


def nexus_model(program, ctx, fast_math=None):
    """Static Nexus graph of fit class ctx. fast_math None -> both variants of the log-determinant wiring are explored."""
    ev = NexusEvaluator(program, ctx, cost_flags={"fast_math": Unknown("fast_math") if fast_math is None else fast_math})
    ev.run_method("_init_nexus")
    return ev.graph, ev.trace


# ---------------------------------------------------------------------------------------------------------- cost model
class CostEvaluator(Evaluator):
    """Interprets a CostFunction* constructor for one keyword configuration."""

    def __init__(self, program, ctx):
        super().__init__(program, ctx)
        self.depth = 0

    def self_attr(self, name):
        if name in self.fields:
            return self.fields[name]
        r = self.ctx.lookup(name)
        if r and r[0] == "prop" and r[1].fget is not None and self.depth < 4:
            self.depth += 1
            try:
                res = self.block(r[1].fget.node.body, {}, r[1].fget)
            finally:
                self.depth -= 1
            return res[1] if res else None
        return super().self_attr(name)

    def ev(self, e, env, f):
        if isinstance(e, ast.Attribute) and e.attr == "__name__":
            base = self.ev(e.value, env, f)
            if isinstance(base, tuple) and base and base[0] == "method":
                return base[2]
            return Unknown("__name__")
        return super().ev(e, env, f)

    def self_call(self, name, e, env, f):
        r = super().self_call(name, e, env, f)
        if is_unknown(r) and name.startswith("_") and not name.startswith("__") and self.ctx.find_method(name) is not None and self.depth < 4:
            # a private helper of the cost class (`self._new_pointwise_instance(..)`): interpreted like the property that calls it
            self.depth += 1
            try:
                return self.call_method(name, e, env, f)
            finally:
                self.depth -= 1
        return r

    def hook(self, src, e, env, f):
        if src == "list" and e.args:
            v = self.ev(e.args[0], env, f)
            if isinstance(v, (list, tuple)):
                return list(v)
            # list(signature(handle).parameters.keys()) -> formal parameter names of the handle
            h = self.fields.get("_cost_function_handle")
            if isinstance(h, tuple) and h and h[0] == "method":
                m = self.ctx.find_method(h[2])
                if m is not None:
                    ps = m.params()
                    if m.kind not in ("static",) and ps and ps[0] in ("self", "cls"):
                        ps = ps[1:]
                    return list(ps)
            return Unknown("list")
        if src == "len" and e.args:
            v = self.ev(e.args[0], env, f)
            return len(v) if isinstance(v, (list, tuple, str)) else Unknown("len")
        if src == "type(self)":
            kw = self.kwargs(e, env, f)
            return ("costmodel", cost_model(self.p, self.ctx, kw))
        if src in ("signature", "CostFunctionFormatter", "ParameterFormatter"):
            return Unknown(src)
        return NotImplemented


def cost_model(program, ctx, kwargs):
    """-> dict(handle, formals, arg_names, flags..., fields) for CostFunction class ctx constructed with literal kwargs"""
    ev = CostEvaluator(program, ctx)
    init = ctx.find_method("__init__")
    if init is None:
        raise AnalysisError("cost class %s has no __init__" % ctx.name)
    args = dict(kwargs)
    ev.run_method("__init__", args)
    fl = ev.fields
    h = fl.get("_cost_function_handle")
    handle_name = h[2] if isinstance(h, tuple) and h and h[0] == "method" else None
    # MultiCostFunction-style `K.cost_sum`
    formals = None
    hm = ctx.find_method(handle_name) if handle_name else None
    if hm is not None:
        formals = hm.params()
        if hm.kind != "static" and formals and formals[0] in ("self", "cls"):
            formals = formals[1:]
    an = fl.get("_arg_names")
    out = {
        "cls": ctx.name,
        "kwargs": dict(kwargs),
        "handle": handle_name,
        "handle_func": hm,
        "formals": formals,
        "arg_names": list(an) if isinstance(an, list) and not any(is_unknown(x) for x in an) else None,
        "fields": fl,
        "trace": ev.trace,
    }
    # evaluate the read-only properties we need
    for prop in ("pointwise", "pointwise_version"):
        try:
            out[prop] = ev.self_attr(prop)
        except Exception as e:  # pragma: no cover
            out[prop] = Unknown(str(e))
    return out
