"""Obligation bookkeeping, known-findings handling, evidence writer, exit protocol."""
import json
import os
import sys
import time

from .srcmodel import AnalysisError

VERIF_DIR = os.path.dirname(os.path.dirname(os.path.abspath(__file__)))
EVIDENCE_DIR = os.path.join(VERIF_DIR, "evidence")
KNOWN_FINDINGS = os.path.join(VERIF_DIR, "known_findings.json")


class Ob:
    __slots__ = ("rule", "key", "ok", "file", "line", "what", "detail", "nontrivial")

    def __init__(self, rule, key, ok, file, line, what, detail, nontrivial):
        self.rule = rule
        self.key = key
        self.ok = ok
        self.file = file
        self.line = line
        self.what = what
        self.detail = detail
        self.nontrivial = nontrivial

    def as_dict(self):
        d = {"rule": self.rule, "key": self.key, "ok": self.ok, "where": "%s:%s" % (self.file, self.line), "what": self.what}
        if self.detail:
            d["detail"] = self.detail
        return d


class Run:
    def __init__(self, prop, tier="quick", root="/repo", quiet=False):
        self.prop = prop
        self.tier = tier
        self.root = root
        self.quiet = quiet
        self.obs = []
        self.floors = {}
        self.info = {}
        self.notes = []
        self.analysis_errors = []
        self.assumptions = []
        self.t0 = time.time()
        self.rule_docs = {}

    # ---- recording
    def rule(self, rule, doc, min_instances=1):
        self.rule_docs[rule] = doc
        self.floors[rule] = max(self.floors.get(rule, 0), min_instances)

    def ob(self, rule, construct, ok, where, what="", nontrivial=True, **detail):
        """construct: stable identification of the instance (class.method + field/node/key), never a line number."""
        f, line = where if where else ("?", 0)
        key = "%s|%s|%s" % (rule, f, construct)
        self.obs.append(Ob(rule, key, bool(ok), f, line, what, detail, nontrivial))
        return ok

    def guard(self, label):
        """context manager around one section of a rule module: an AnalysisError inside it (anchor not found, construct not understood) is recorded and the other
        sections still run. At the end the run exits 1 if some section found a violation (the analysis errors are printed as notes), 2 if there are only analysis
        errors. A NameError in a later section is treated the same way when an earlier section failed (it depends on what that section would have computed)."""
        run = self

        class _G:
            def __enter__(self_):
                return self_

            def __exit__(self_, et, ev, tb):
                if et is None:
                    return False
                if issubclass(et, AnalysisError) or (issubclass(et, (NameError, UnboundLocalError)) and run.analysis_errors):
                    run.analysis_errors.append("%s: %s" % (label, ev))
                    return True
                if issubclass(et, (IndexError, KeyError, AttributeError, TypeError, ValueError, StopIteration)):
                    # the rule code met a shape it was not written for: an analysis error of this section, not a verdict
                    run.analysis_errors.append("%s: construct not understood (%s: %s)" % (label, et.__name__, ev))
                    return True
                return False

        return _G()

    def note(self, s):
        self.notes.append(s)

    def say(self, s):
        if not self.quiet:
            print(s)

    # ---- finishing
    def violations(self):
        return [o for o in self.obs if not o.ok]

    def check_floors(self):
        counts = {}
        for o in self.obs:
            counts[o.rule] = counts.get(o.rule, 0) + 1
        for r, n in self.floors.items():
            if counts.get(r, 0) < n:
                raise AnalysisError("rule %s matched %d instances, below the confirmed floor %d (anchor vanished or rewritten beyond recognition)" % (r, counts.get(r, 0), n))
        return counts

    def finish(self, explanation, level="other", extra_cov=None, write=True):
        if self.analysis_errors and not [o for o in self.violations() if o.key not in load_known(self.prop)]:
            raise AnalysisError("; ".join(self.analysis_errors[:3]))
        for a in self.analysis_errors:
            self.note("section not analysed: %s" % a)
        try:
            counts = self.check_floors()
        except AnalysisError as e:
            # a rule that found fewer instances than confirmed is an analysis problem - unless the run also found violations: those are reported first
            # (a rewritten construct typically both violates a rule and makes a sibling rule lose its anchor)
            if not [o for o in self.violations() if o.key not in load_known(self.prop)]:
                raise
            self.note("instance floor not reached: %s" % e)
            counts = {}
            for o in self.obs:
                counts[o.rule] = counts.get(o.rule, 0) + 1
        known = load_known(self.prop)
        viol = self.violations()
        new = []
        known_hit = []
        for o in viol:
            if o.key in known:
                known_hit.append(o)
            else:
                new.append(o)
        self.say("[%s/%s] root=%s rules=%d obligations=%d discharged=%d known-findings=%d new-violations=%d (%.2fs)" % (
            self.prop, self.tier, self.root, len(self.floors), len(self.obs), len(self.obs) - len(viol), len(known_hit), len(new), time.time() - self.t0))
        for r in sorted(counts):
            bad = sum(1 for o in self.obs if o.rule == r and not o.ok)
            self.say("  rule %-12s instances=%-4d failed=%-3d %s" % (r, counts[r], bad, self.rule_docs.get(r, "")[:110]))
        for k, v in sorted(self.info.items()):
            self.say("  analysed %s: %s" % (k, v))
        seen_known = set()
        for o in known_hit:
            if o.key in seen_known:
                continue
            seen_known.add(o.key)
            print("KNOWN-FINDING: property=%s %s [%s] (%s:%s)" % (self.prop, known[o.key].get("what") or o.what, o.key, o.file, o.line))
        replay_paths = []
        if write:
            vdir = os.path.join(EVIDENCE_DIR, "%s.violations" % self.prop)
            if os.path.isdir(vdir):
                for fn in os.listdir(vdir):
                    os.unlink(os.path.join(vdir, fn))
            for i, o in enumerate(new):
                os.makedirs(vdir, exist_ok=True)
                pth = os.path.join(vdir, "%03d.json" % i)
                with open(pth, "w") as f:
                    json.dump({"property": self.prop, "rule_doc": self.rule_docs.get(o.rule, ""), **o.as_dict()}, f, indent=1)
                replay_paths.append(pth)
        for i, o in enumerate(new):
            pth = replay_paths[i] if write else "-"
            print("  FAIL %s %s:%s %s" % (o.rule, o.file, o.line, o.what))
            print("VIOLATION property=%s replay=%s" % (self.prop, pth))
        if write:
            self._write_evidence(explanation, level, counts, viol, new, extra_cov)
        return 1 if new else 0

    def _write_evidence(self, explanation, level, counts, viol, new, extra_cov):
        os.makedirs(EVIDENCE_DIR, exist_ok=True)
        distinct = len({o.key for o in self.obs if o.nontrivial})
        samples = [o.as_dict() for o in self.obs[:: max(1, len(self.obs) // 12)]][:14]
        cov = {
            "explanation": explanation,
            "evaluations": len(self.obs),
            "distinct_nontrivial": distinct,
            "rule": "one evaluation = one rule instance (obligation) enumerated from the parsed sources; an instance is non-trivial "
                    "when the rule had something to check for it (e.g. a writer with a dependent cache); distinct = distinct construct keys",
            "obligations": len(self.obs),
            "discharged": len(self.obs) - len(viol),
            "samples": samples,
            "exhaustive": True,
            "rules": {r: {"doc": self.rule_docs.get(r, ""), "instances": n, "floor": self.floors.get(r, 0)} for r, n in sorted(counts.items())},
            "analysed": self.info,
            "known_findings_reported": len(viol) - len(new),
            "notes": self.notes,
        }
        if extra_cov:
            cov.update(extra_cov)
        ev = {
            "property_id": self.prop,
            "tier": self.tier,
            "seed": int(os.environ.get("VERIF_SEED", "0") or 0),
            "level": level,
            "coverage": cov,
            "assumptions": self.assumptions,
            "wall_s": round(time.time() - self.t0, 3),
            "violations": len(new),
        }
        with open(os.path.join(EVIDENCE_DIR, "%s.json" % self.prop), "w") as f:
            json.dump(ev, f, indent=1, default=str)


def load_known(prop):
    if not os.path.exists(KNOWN_FINDINGS):
        return {}
    with open(KNOWN_FINDINGS) as f:
        data = json.load(f)
    out = {}
    for e in data.get("findings", []):
        if e.get("property") == prop and e.get("status") == "known":
            out[e["key"]] = e
    return out
