"""Membership in the language of a regular-expression *literal*, decided on its parsed syntax tree (re._parser) by position-set
simulation. Used for necessary conditions on patterns ("the exponent part must be able to consume every exponent string") -
language membership only, no match priorities, no captures."""
import re._constants as C
import re._parser as P

from .srcmodel import AnalysisError

DIGITS = set("0123456789")


def parse(pattern):
    try:
        return list(P.parse(pattern))
    except Exception as e:  # noqa
        raise AnalysisError("regular expression %r does not parse: %s" % (pattern, e))


def _in_matches(items, ch):
    neg = False
    hit = False
    for op, av in items:
        if op is C.NEGATE:
            neg = True
        elif op is C.LITERAL:
            hit = hit or ord(ch) == av
        elif op is C.RANGE:
            hit = hit or av[0] <= ord(ch) <= av[1]
        elif op is C.CATEGORY:
            if av is C.CATEGORY_DIGIT:
                hit = hit or ch.isdigit()
            elif av is C.CATEGORY_NOT_DIGIT:
                hit = hit or not ch.isdigit()
            elif av is C.CATEGORY_SPACE:
                hit = hit or ch.isspace()
            elif av is C.CATEGORY_WORD:
                hit = hit or ch.isalnum() or ch == "_"
            else:
                raise AnalysisError("regex category %s not supported" % av)
        else:
            raise AnalysisError("regex set item %s not supported" % op)
    return hit != neg


def ends(items, s, starts):
    """set of positions reachable in s after matching the item sequence from any position in `starts`"""
    cur = set(starts)
    for op, av in items:
        nxt = set()
        if op is C.LITERAL:
            nxt = {i + 1 for i in cur if i < len(s) and ord(s[i]) == av}
        elif op is C.NOT_LITERAL:
            nxt = {i + 1 for i in cur if i < len(s) and ord(s[i]) != av}
        elif op is C.ANY:
            nxt = {i + 1 for i in cur if i < len(s) and s[i] != "\n"}
        elif op is C.IN:
            nxt = {i + 1 for i in cur if i < len(s) and _in_matches(av, s[i])}
        elif op is C.SUBPATTERN:
            nxt = ends(list(av[3]), s, cur)
        elif op is C.BRANCH:
            for alt in av[1]:
                nxt |= ends(list(alt), s, cur)
        elif op in (C.MAX_REPEAT, C.MIN_REPEAT):
            lo, hi, sub = av
            sub = list(sub)
            layer = set(cur)
            n = 0
            reach = set(cur) if lo == 0 else set()
            seen_layers = []
            while layer and (hi is C.MAXREPEAT or n < hi) and n <= len(s) + 1:
                layer = ends(sub, s, layer)
                n += 1
                if n >= lo:
                    reach |= layer
                if layer in seen_layers:
                    break
                seen_layers.append(set(layer))
            nxt = reach
        else:
            raise AnalysisError("regex construct %s not supported by the language check" % op)
        cur = nxt
        if not cur:
            break
    return cur


def split_at_literal(items, ch):
    """(items before, items after) the first top-level literal `ch`"""
    for i, (op, av) in enumerate(items):
        if op is C.LITERAL and av == ord(ch):
            return items[:i], items[i + 1:]
    raise AnalysisError("regex has no top-level literal %r" % ch)
