"""Runs the rule set of one property against a source root and applies the exit protocol."""
import importlib
import json
import os

from .engine import Engine
from .report import Run
from .srcmodel import AnalysisError

__all__ = ["main", "AnalysisError", "run_property"]

# property id -> (rule module, explanation of what the check decides)
PROPS = {
    "C04": ("c04", "Per-method proof obligations of the Nexus invalidation protocol (R-B): every structural edit registers the parent link "
                   "and marks the node, every raw staleness write notifies parents, setters notify, update() overrides produce the value "
                   "and clear the flag reading children through .value, the stop condition of mark_for_update is exactly (not stale and not "
                   "frozen), every graph edit ends in a cycle check. Decided per function on its CFG over all node classes found in the source."),
    "C11": ("c11", "Structure of MultiFit: one cost argument per member and a plain sum; partition by is_chi2 with shared errors (data slots, joint inputs, no double "
                   "counting, constraint cost of the sharing members kept); parameter nodes unified by replacement in every member graph; block assembly (diagonal blocks on "
                   "consecutive edges, shared sources accumulated into both transposed off-diagonal blocks, enabled / axis guards, edges through the fit-index map); joint "
                   "covariance formula; results pushed into members on all paths after they are produced; fix / release mirrored."),
    "C12": ("c12", "Typestate rule: every reader of the histogram count store is dominated by a flush of pending entries (or is flush-independent by "
                   "construction); index conventions of underflow/bins/overflow agree with the filler; path rules on the single-pass filler: the comparison "
                   "between entry and edge is `>=` (half-open bins), every loop path that consumes an entry increments exactly one count and records the "
                   "entry, leftovers go to the overflow with their number, pending list cleared; rebin zeroes counts and re-queues all processed entries."),
    "C02": ("c02", "Cache coherence of the container layer: inputs of each cache are derived from the compute function's transitive read set; every "
                   "writer of an input (all functions visible on each of the 8 container / parametric-model classes) must reach the invalidator on all "
                   "normal paths (total-error cache, CovMat caches), value writers must reset the source references of the written axis, raw reads of "
                   "lazily recomputed model values must be dominated by the stale check, the total is summed after the lazy values are brought up to date, "
                   "disabled sources are skipped wherever covariances are accumulated, lazy getters test the field they return."),
    "C17": ("c17", "Dominance of every print of stored parameter numbers by the refresh of that fit's formatters (same iteration scope, through callers); copy "
                   "structure of the refresh; fixed flag set / tested; key -> live property tables of result dictionary, report and preface; canonical forms of the "
                   "decimal-place formulas; language rule on the LaTeX exponent regular expression (must consume every double exponent)."),
    "C18": ("c18", "Role agreements (axis / kind / side) of the eight adapter properties of the four plot adapters read off their names; slot tables of the draw calls; "
                   "canonical forms of ratio / residual / pull and of the band formulas; total uncertainty with the Poisson term in quadrature; info box: refresh in the "
                   "same iteration scope and cost numbers read from the described fit."),
    "C19": ("c19", "Path rule R-A over every function executable after construction on 31 anchor classes: no rejection point (explicit escaping raise, "
                   "same-object call that may reject, or call into the validator table) is reachable on the CFG after a node with a state write "
                   "(interprocedural write effects, ignoring getter-internal refreshes and listed cache/scratch fields), unless a handler rolls the write "
                   "back; plus a guard-presence table: each invalid-input class named in the statement has its guard (entry point, exception type, tested "
                   "quantity), so that a deleted or hollowed-out guard is a violation."),
    "C01": ("c01", "Wiring by name between cost functions and the Nexus graph, decided on tables reconstructed by constant propagation: the registry of every "
                   "fit class x the constructor configuration of each entry gives (handle, formal parameters, wired node names, flags); the static Nexus "
                   "graph of each fit class gives the node table. Rules: formals = wired names (D1), determinant node matches the quadratic form and "
                   "chi2_probability (D2), pointwise twin carries the same effective flags (D3), append/strip symmetry (D4), axis constants (D5), "
                   "invalidation callbacks are stored in fields that are read (D6), normalised axis is used (D8), implicit no-errors switch and exact "
                   "diagonality test (Dsw)."),
    "C03": ("c03", "Hidden-input invalidation of Nexus property nodes (for each public entry point of each fit class: fields written vs inputs of every "
                   "observable-reachable property node vs nodes marked on every path, over the static graph reconstructed by constant propagation), required "
                   "edges, did-fit / loaded-result coherence, re-selection of the cost node, freeze protocol bracket in do_fit, read-only getters."),
    "C10": ("c10", "Formula-shape rules: the canonical polynomial form (Fraction coefficients, temporaries inlined, accumulate-loops summarised) of ndf in "
                   "FitBase / ParametricModelBaseMixin / both constraint classes / MultiFit equals the documented formula; chi2 probability is "
                   "1 - chi2.cdf(cost - determinant, ndf) with every determinant subtraction guarded by the flag that says the cost contains it; goodness of "
                   "fit = cost(det:=0) - handle(model:=data); MultiFit overrides keep the terms of the base definitions."),
    "C06": ("c06", "Path rules on FitBase.do_fit (each minimiser run bracketed by freeze / release of the same node list with the same flag, data reference before "
                   "the first pass, reset before every refit, refit iff dynamic uncertainties); sibling agreement of the refit predicates and MultiFit delegation; "
                   "fix / release / limit / unlimit forwarded, recorded and re-applied by every backend (iminuit rebuild applies value, fixed flag and limits of every "
                   "parameter unconditionally); scipy argument re-packing uses one index map for packing and unpacking; float parameter store."),
    "C16": ("c16", "Canonical-form equality of the two conversion formulas with their documented forms; proof that they are mutual inverses by composing the "
                   "extracted expressions and rewriting with the inverse pair gammainccinv/gammaincc (both directions normalise to the identity); the contour "
                   "level 1-exp(-s^2/2) equals the n=2 instance; setters clear the other representation; dimension of every ConfidenceLevel call site; "
                   "per-branch agreement of tail probability and converted level in the arrow computation; argument-slot rule along the profile call chain."),
    "C08": ("c08", "Pairing rule on the CFG of every post-fit query of both minimizer adapters (and the generic code they inherit): each primitive that moves "
                   "the backend or the graph away from the optimum is post-dominated by a restore; snapshots are taken before anything moves and dominate "
                   "the restores; temporary fix() is released; mutators invalidate the adapter caches; _invalidate_cache covers all lazily computed fields; "
                   "the did-fit flag is written only by reset/minimize/_load_state; save/load symmetry; NexusFitter write-back after minimizing."),
    "C13": ("c13", "The three quadrature rules are read off the canonical form of their return expressions as (left, centre, right) weights per unit bin "
                   "width and checked against the exactness identities on [0,1] with rational arithmetic (Simpson degree 3, trapezoid/midpoint degree 1); bin "
                   "centres/widths, antiderivative difference and numerical integration use the same edge slices; selection table; recalculation; HistFit "
                   "scaling by the number of entries iff density; the model is rebuilt from the current container on every path."),
    "C07": ("c07", "Formula-shape rules for the parameter covariance (2 x errordef x inverse Hessian and the iminuit adapter's inverse relations), fixed-"
                   "parameter bookkeeping (one index set for removal and re-insertion, inversion on the free sub-block, symmetrisation, scipy re-packing), "
                   "correlation and symmetric errors, profile / contour targets (+1, sigma^2), profile function cost - target with pinning and re-minimisation, "
                   "error band sqrt(p^T C p) with one mask; argument-slot rule over the minimizer, fitter, profiler and xy fit classes."),
    "C09": ("c09", "Agreement of the tables behind save/load, read off the representer sources: object type names of all to_file/from_file classes vs the "
                   "registered reader/writer pairs (classmethod-ness included); mutual inverse of the per-family type tables; keys written by each writer vs "
                   "keys consumed by its reader (incl. the shared error-source helpers) and required keys vs written keys; copy-paste detector; flag-dependent "
                   "accessors; per-source state coverage; truncate-before-write dominance; sibling shorthand expanders; reader-side installs followed by the "
                   "fit's own invalidation."),
    "C14": ("c14", "Equivalent specifications: every absolute<->relative and covariance<->correlation conversion of the constraint and error classes has "
                   "the documented canonical form and each pair composes to the identity; all four simple-error conversions use |reference| while the "
                   "covariance is built from the signed product; scalar broadcast present in all three add_error implementations; wrapper keywords are "
                   "forwarded with the flags their names state; percent shorthand."),
}


def run_property(prop, tier, root, quiet=False, overrides=None, eng=None):
    if prop not in PROPS:
        raise AnalysisError("no check registered for property %s" % prop)
    modname, explanation = PROPS[prop]
    eng = eng or Engine(root, overrides=overrides)   # (an engine can be shared between properties: tools/quick_all.py)
    R = Run(prop, tier, root, quiet=quiet)
    R.info["source digest"] = eng.p.digest[:16]
    R.info["modules parsed"] = len(eng.p.modules)
    mod = importlib.import_module("kv.rules." + modname)
    mod.run(eng, R)
    from .rules import tolerance

    tolerance.census(eng, R, prop)
    from .rules import latebind

    latebind.census(eng, R, prop)
    st = eng.eff.stats
    R.info["call sites seen by effect summaries"] = "%d (resolved %d, opaque %d)" % (st["calls"], st["resolved"], st["opaque"])
    return R, explanation + " Cross-property censuses over the property's anchor modules: T-tol (no unreviewed tolerance comparison in a decision position) and L-late (no closure over a loop variable escapes the iteration)."


def main(prop, tier="quick", root="/repo", replay=None, write=True, selftest=True):
    if replay:
        with open(replay) as f:
            rec = json.load(f)
        R, explanation = run_property(rec.get("property", prop), tier, root, quiet=True)
        hits = [o for o in R.obs if o.key == rec["key"]]
        if not hits:
            print("replay: instance %s no longer exists in the tree (rule %s)" % (rec["key"], rec["rule"]))
            return 0
        rc = 0
        for o in hits:
            print("replay: %s %s:%s -> %s: %s" % (o.rule, o.file, o.line, "ok" if o.ok else "VIOLATED", o.what))
            if not o.ok:
                print("VIOLATION property=%s replay=%s" % (R.prop, replay))
                rc = 1
        return rc
    R, explanation = run_property(prop, tier, root)
    extra = {}
    if tier == "thorough" and selftest:
        from . import selftest as st

        extra.update(st.run_selftest(prop, root))
    from .manifest_data import CLAIMED

    level = CLAIMED.get(prop, {}).get("category", "other")
    if level == "proof":
        extra["checker_cmd"] = "/venv/bin/python /verif/check %s --tier %s" % (prop, tier)
        extra["trusted_base"] = CLAIMED[prop].get("trusted_base", ["kv.termform extraction and normalisation (ast, Fraction arithmetic)", "scipy.special functions are what they claim"])
    return R.finish(explanation, level=level, extra_cov=extra or None, write=write)
