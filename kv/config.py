"""Tables confirmed by reading the repository (types of fields that no constructor assignment reveals)."""

# (class, field) -> list of class names; '@X' = the class named by class constant X of the concrete context class
FIELD_TYPES = {
    ("FitBase", "_nexus"): ["Nexus"],
    ("FitBase", "_fitter"): ["NexusFitter"],
    ("FitBase", "_data_container"): ["@CONTAINER_TYPE"],
    ("FitBase", "_param_model"): ["@MODEL_TYPE"],
    ("FitBase", "_cost_function"): ["CostFunction"],
    ("FitBase", "_cost_function_pointwise"): ["CostFunction"],
    ("FitBase", "_model_function"): ["@MODEL_FUNCTION_TYPE"],
    ("MultiFit", "_cost_function"): ["MultiCostFunction"],
    ("MultiFit", "_shared_cost_function"): ["SharedCostFunction"],
    ("NexusFitter", "_minimizer"): ["MinimizerIMinuit", "MinimizerScipyOptimize"],
    ("NexusFitter", "_nx"): ["Nexus"],
    ("ParametricModelBaseMixin", "_model_function_object"): ["ModelFunctionBase"],
    ("ContoursProfiler", "_fit"): ["FitBase"],
    ("PlotAdapterBase", "_fit"): ["FitBase"],
}

ELEM_TYPES = {
    ("MultiFit", "_fits"): ["FitBase"],
}

RETURN_TYPES = {
    "Nexus.get": ["ValueNode"],
    "NexusFitter.minimizer.fget": ["MinimizerIMinuit", "MinimizerScipyOptimize"],
}


def make_effects(program):
    from .effects import Effects

    return Effects(program, FIELD_TYPES, ELEM_TYPES, RETURN_TYPES)
